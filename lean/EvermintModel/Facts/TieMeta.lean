import EvermintModel.Facts.GenCode
/-! What the translator produced on this run: every target function was translated, and the only conditions, calls and
constructed objects left uninterpreted (inputs of the generated definitions, or names of accessors) are the ones listed —
anything else is a changed obligation. -/
namespace Evermint.Facts.TieMeta
open Evermint.GenCode

theorem fact_translated_all :
    translated = ["utils_add", "utils_mul", "utils_EthTxGasPrice", "utils_EthTxFee", "utils_EthTxEffectiveGasPrice",
      "utils_EthTxEffectiveFee", "utils_CheckIfAccountIsSuitableForDestroyingAt", "utils_HasSingleEthereumMessage",
      "utils_IsEthereumTx", "duallane_validateSingleFee", "duallane_getMinGasPricesAllowed",
      "duallane_getTxPriority", "duallane_EthereumTxFeeChecker", "duallane_CosmosTxFeeChecker",
      "keeper_StateTransition_gasUsed", "keeper_StateTransition_buyGas", "keeper_StateTransition_preCheck",
      "keeper_StateTransition_refundGas", "types_BinSearch", "keeper_Keeper_GetRawTxCountTransient",
      "keeper_Keeper_GetTxCountTransient", "keeper_Keeper_IncreaseTxCountTransient",
      "keeper_Keeper_SetGasUsedForCurrentTxTransient", "keeper_Keeper_GetGasUsedForTdxIndexTransient",
      "keeper_Keeper_SetLogCountForCurrentTxTransient", "keeper_Keeper_GetCumulativeLogCountTransient",
      "keeper_erc20CustomPrecompiledContractRwTransferFrom_spendAllowance", "types_BlockGasLimit",
      "vm_CustomPrecompiledContract_RunCustom", "vm_CustomPrecompiledContractMethod_Validate", "misc_CalcBaseFee",
      "core_IntrinsicGas", "keeper_Keeper_CalculateBaseFee", "types_addUint64Overflow",
      "types_infiniteGasMeterWithLimit_ConsumeGas", "types_infiniteGasMeterWithLimit_RefundGas",
      "keeper_Keeper_ResetGasMeterAndConsumeGas", "keeper_Keeper_GetBaseFee", "keeper_validateDeployer",
      "duallane_DLExtensionOptionsDecorator_AnteHandle", "duallane_DLTxTimeoutHeightDecorator_AnteHandle",
      "duallane_DLValidateMemoDecorator_AnteHandle", "cosmoslane_CLRejectEthereumMsgsDecorator_AnteHandle",
      "cosmoslane_CLVestingMessagesAuthorizationDecorator_AnteHandle",
      "duallane_DLValidateBasicDecorator_AnteHandle", "keeper_msgServer_SubmitProofExternalOwnedAccount",
      "duallane_DLSigVerificationDecorator_AnteHandle", "duallane_DLIncrementSequenceDecorator_AnteHandle",
      "duallane_DLDeductFeeDecorator_AnteHandle", "keeper_Keeper_IsEmptyAccount",
      "keeper_erc20CustomPrecompiledContractRwTransferFrom_transfer", "types_Params_Validate", "indexer_TxIndexKey",
      "indexer_parseBlockNumberFromKey", "indexer_isEthTx", "evmlane_ELValidateBasicEoaDecorator_AnteHandle",
      "evmlane_ELSetupExecutionDecorator_AnteHandle", "evmlane_ELEmitEventDecorator_AnteHandle"] := by
  decide +kernel

theorem fact_uninterpreted :
    uninterpreted = ["utils_CheckIfAccountIsSuitableForDestroyingAt: account==nil||reflect.ValueOf(account).IsNil()",
      "duallane_CosmosTxFeeChecker: call checkTxFeeWithValidatorMinGasPrices(ctx,feeTx)",
      "keeper_StateTransition_preCheck: codeHash!=common.BytesToHash(evmtypes.EmptyCodeHash)",
      "keeper_StateTransition_preCheck: codeHash!=(*ast.CompositeLit)",
      "duallane_DLValidateBasicDecorator_AnteHandle: object new_LatestSignerForChainID_01415ad1 = ethtypes.LatestSignerForChainID(vbd.ek.GetEip155ChainId(ctx).BigInt())",
      "keeper_msgServer_SubmitProofExternalOwnedAccount: object lit_vauthtypes_ProofExternalOwnedAccount_5084c998 = vauthtypes.ProofExternalOwnedAccount{Account: msg.Account, Hash: \"0x\"+hex.EncodeToString(crypto.Keccak256(*ast.ArrayType(vauthtypes.MessageToSign))), Signature: msg.Signature}",
      "duallane_DLSigVerificationDecorator_AnteHandle: object new_LatestSignerForChainID_ced01bc1 = ethtypes.LatestSignerForChainID(chainID)",
      "keeper_Keeper_IsEmptyAccount: call evmtypes.IsEmptyCodeHash(codeHash)",
      "keeper_erc20CustomPrecompiledContractRwTransferFrom_transfer: from!=to",
      "keeper_erc20CustomPrecompiledContractRwTransferFrom_transfer: to==(*ast.CompositeLit)",
      "keeper_erc20CustomPrecompiledContractRwTransferFrom_transfer: literal 70cc4350 = &ethtypes.Log{Address: contractAddr, Topics: *ast.ArrayType{common.HexToHash(\"0xddf252ad1be2c89b69c2b068fc378daa952ba7f163c4a11628f55a4df523b3ef\"), common.BytesToHash(from.Bytes()), common.BytesToHash(to.Bytes())}, Data: common.BytesToHash(amount.Bytes()).Bytes()}",
      "types_Params_Validate: call validateMinGasPrice(p.MinGasPrice)",
      "evmlane_ELValidateBasicEoaDecorator_AnteHandle: object new_BytesToAddress_712e99b6 = common.BytesToAddress(from)",
      "evmlane_ELValidateBasicEoaDecorator_AnteHandle: call evmtypes.IsEmptyCodeHash(codeHash)"] := by
  decide +kernel

end Evermint.Facts.TieMeta
