import EvermintModel.Facts.TieAnte
/-!
Tie theorem for C07: `DLValidateBasicDecorator.AnteHandle` (`/repo/app/antedl/duallane/03_validate_basic.go`) — the decorator that
enforces the shape rules of an Ethereum-lane transaction — **as translated from the Go source on this run**.

`verdict03` is the decorator's decision *before* it hands over to the rest of the chain: `none` = "go on", `some r` = the fixed
result `r` (an error class, or a Go panic `none`) that does not consult the continuation.  `tie_validate_basic` proves that the
generated function is exactly `verdict03` followed by `next`; `tie_validate_basic_shape` then states what C07 says, about the code:
outside recheck mode, a transaction whose only message is an Ethereum message reaches the rest of the ante chain **only if** it is a
well-formed Ethereum transaction without signer infos, fee payer, fee granter or Cosmos signatures, replay-protected, with create / call
permitted by the parameters, and with declared fee and gas limit equal to those of the embedded Ethereum transaction.
-/
namespace Evermint.Facts.TieAnteBasic
open Evermint Evermint.GenCode Evermint.Ante Evermint.Facts.TieAnte

abbrev Next := Bool → (Unit × Option String)

/-- the Ethereum transaction inside the message, as `evmutils.EthTxFee` reads it -/
def evmTxOf (el : iface_ProtoMessage_Reset_String) : types_Transaction :=
  { Gas := el.as_evmtypes_MsgEthereumTx_AsTransaction_Gas, GasFeeCap := el.as_evmtypes_MsgEthereumTx_AsTransaction_GasFeeCap,
    GasPrice := el.as_evmtypes_MsgEthereumTx_AsTransaction_GasPrice, GasTipCap := el.as_evmtypes_MsgEthereumTx_AsTransaction_GasTipCap,
    Type' := el.as_evmtypes_MsgEthereumTx_AsTransaction_Type' }

/-- the fee coins the decorator compares the declared fee with: `NewCoins(NewCoin(evmDenom, NewIntFromBigInt(EthTxFee(tx))))`;
`none` = one of the constructors panics (fee beyond 256 bits / negative) -/
def ethFeeCoins (denom : String) (el : iface_ProtoMessage_Reset_String) : Option (List Go.Coin) :=
  match utils_EthTxFee (evmTxOf el) with
  | none => none
  | some f => match Go.sdkInt f with
    | none => none
    | some f' => match Go.newCoin denom f' with
      | none => none
      | some c => some (Go.newCoins1 c)

/-- one guard of a decision chain: refuse with `r` when `c` holds, else go on with `k` -/
def guardWith {α : Type} (c : Prop) [Decidable c] (r : α) (k : Option α) : Option α := if c then some r else k

theorem guardWith_none {α : Type} (c : Prop) [Decidable c] (r : α) (k : Option α) : guardWith c r k = none ↔ ¬ c ∧ k = none := by
  unfold guardWith; split <;> simp [*]

/-- the decision of `03_validate_basic` for a single-Ethereum-message transaction outside recheck mode -/
def verdict03 (vbd : duallane_DLValidateBasicDecorator) (tx : types_Tx) (isEthTx : Bool) (el : iface_ProtoMessage_Reset_String) :
    Option (Option (Option String)) :=
  guardWith (isEthTx = false) (some (some "ErrInvalidRequest")) <|
  guardWith (tx.as_sdk_HasValidateBasic_ValidateBasic ≠ none ∧ tx.as_sdk_HasValidateBasic_ValidateBasic ≠ some "ErrNoSignatures")
    (some tx.as_sdk_HasValidateBasic_ValidateBasic) <|
  guardWith (tx.is_protoTxProvider = false) (some (some "ErrUnknownRequest")) <|
  guardWith (tx.as_protoTxProvider_GetProtoTx_AuthInfo_SignerInfos ≠ []) (some (some "ErrInvalidRequest")) <|
  guardWith (tx.as_protoTxProvider_GetProtoTx_AuthInfo_Fee_Payer ≠ "" ∨ tx.as_protoTxProvider_GetProtoTx_AuthInfo_Fee_Granter ≠ "")
    (some (some "ErrInvalidRequest")) <|
  guardWith (tx.as_protoTxProvider_GetProtoTx_Signatures_len > 0) (some (some "ErrInvalidRequest")) <|
  guardWith (el.as_evmtypes_MsgEthereumTx_ValidateBasic ≠ none) (some el.as_evmtypes_MsgEthereumTx_ValidateBasic) <|
  guardWith ((el.as_evmtypes_MsgEthereumTx_AsTransaction_AsMessage_vbd_new_LatestSignerForChainID_01415ad1 vbd.ek_feeMarketKeeper_GetBaseFee).2 ≠ none)
    (some (some "ErrInvalidRequest")) <|
  guardWith (vbd.ek_GetParams_GetEnableCreate = false ∧ el.as_evmtypes_MsgEthereumTx_AsTransaction_To_isNil = true) (some (some "ErrCreateDisabled")) <|
  guardWith (vbd.ek_GetParams_GetEnableCall = false ∧ el.as_evmtypes_MsgEthereumTx_AsTransaction_To_isNil = false) (some (some "ErrCallDisabled")) <|
  guardWith (el.as_evmtypes_MsgEthereumTx_AsTransaction_Protected = false) (some (some "ErrNotSupported")) <|
  match ethFeeCoins vbd.ek_GetParams_GetEvmDenom el with
  | none => some none
  | some fee =>
    guardWith (Go.coinsEqual tx.as_protoTxProvider_GetProtoTx_AuthInfo_Fee_Amount fee = false) (some (some "ErrInvalidRequest")) <|
    guardWith (tx.as_protoTxProvider_GetProtoTx_AuthInfo_Fee_GasLimit ≠ el.as_evmtypes_MsgEthereumTx_AsTransaction_Gas)
      (some (some "ErrInvalidRequest")) none

/-- **the generated `AnteHandle` of `03_validate_basic` is `verdict03`, then the rest of the chain** -/
theorem tie_validate_basic (vbd : duallane_DLValidateBasicDecorator) (ctx : types_Context) (tx : types_Tx) (sim : Bool) (next : Next)
    (isEthTx : Bool) (el : iface_ProtoMessage_Reset_String)
    (hre : ctx.IsReCheckTx = false) (hs : utils_HasSingleEthereumMessage tx = some true) (he : utils_IsEthereumTx tx = some isEthTx)
    (h0 : Go.idx tx.GetMsgs 0 = some el) :
    duallane_DLValidateBasicDecorator_AnteHandle vbd ctx tx sim next =
      match verdict03 vbd tx isEthTx el with
      | some r => r
      | none => some (next sim).2 := by
  unfold duallane_DLValidateBasicDecorator_AnteHandle verdict03 ethFeeCoins guardWith
  simp only [hre, hs, he, h0, keeper_Keeper_GetBaseFee, evmTxOf, Bool.false_eq_true, if_false, Bool.not_true]
  generalize tx.as_sdk_HasValidateBasic_ValidateBasic = vb
  generalize tx.is_protoTxProvider = P
  generalize tx.as_protoTxProvider_GetProtoTx_AuthInfo_SignerInfos = S
  generalize tx.as_protoTxProvider_GetProtoTx_AuthInfo_Fee_Payer = payer
  generalize tx.as_protoTxProvider_GetProtoTx_AuthInfo_Fee_Granter = granter
  generalize tx.as_protoTxProvider_GetProtoTx_Signatures_len = L
  generalize hA : el.as_evmtypes_MsgEthereumTx_AsTransaction_AsMessage_vbd_new_LatestSignerForChainID_01415ad1 vbd.ek_feeMarketKeeper_GetBaseFee = A
  simp only [hA]   -- (the occurrence on the generated side, which `generalize` does not see after `simp`)
  generalize el.as_evmtypes_MsgEthereumTx_ValidateBasic = V
  generalize el.as_evmtypes_MsgEthereumTx_AsTransaction_To_isNil = N
  generalize el.as_evmtypes_MsgEthereumTx_AsTransaction_Protected = R
  generalize el.as_evmtypes_MsgEthereumTx_AsTransaction_Gas = gas
  generalize vbd.ek_GetParams_GetEnableCreate = C
  generalize vbd.ek_GetParams_GetEnableCall = K
  cases isEthTx
  · simp
  simp only [Bool.not_true, Bool.false_eq_true, if_false, Bool.true_eq_false]
  -- the transaction's own ValidateBasic: nil and ErrNoSignatures go on
  have hvb : ((!vb.isNone) && !decide (vb = some "ErrNoSignatures")) = true ↔ (vb ≠ none ∧ vb ≠ some "ErrNoSignatures") := by
    cases vb <;> simp
  by_cases h1 : vb ≠ none ∧ vb ≠ some "ErrNoSignatures"
  · rw [if_pos (hvb.mpr h1), if_pos h1]
  rw [if_neg (fun h => h1 (hvb.mp h)), if_neg h1]
  cases P
  · simp
  simp only [Bool.not_true, Bool.false_eq_true, if_false, Bool.true_eq_false]
  have hS : decide (((S.length : Nat) : Int) > 0) = true ↔ S ≠ [] := by
    cases S <;> simp
  by_cases h2 : S ≠ []
  · rw [if_pos (hS.mpr h2), if_pos h2]
  rw [if_neg (fun h => h2 (hS.mp h)), if_neg h2]
  have hpg : ((!decide (payer = "")) || !decide (granter = "")) = true ↔ (payer ≠ "" ∨ granter ≠ "") := by
    simp
  by_cases h3 : payer ≠ "" ∨ granter ≠ ""
  · rw [if_pos (hpg.mpr h3), if_pos h3]
  rw [if_neg (fun h => h3 (hpg.mp h)), if_neg h3]
  by_cases h4 : L > 0
  · rw [if_pos (by simpa using h4), if_pos h4]
  rw [if_neg (by simpa using h4), if_neg h4]
  cases V with
  | some v => simp
  | none =>
  simp only [Option.isNone_none, Bool.not_true, Bool.false_eq_true, if_false, ne_eq, not_true_eq_false]
  obtain ⟨u, a⟩ := A
  cases a with
  | some v => simp
  | none =>
  simp only [Option.isNone_none, Bool.not_true, Bool.false_eq_true, if_false, ne_eq, not_true_eq_false]
  cases C <;> cases K <;> cases N <;> cases R <;> simp only [Bool.not_true, Bool.not_false, Bool.and_true, Bool.and_false, Bool.true_and,
    Bool.false_and, Bool.false_eq_true, Bool.true_eq_false, and_true, and_false, true_and, false_and, if_false, if_true] <;> try rfl
  all_goals
    (cases utils_EthTxFee _ with
     | none => rfl
     | some f =>
       simp only []
       cases Go.sdkInt f with
       | none => rfl
       | some f' =>
         simp only []
         cases Go.newCoin _ f' with
         | none => rfl
         | some c =>
           simp only []
           cases Go.coinsEqual _ (Go.newCoins1 c)
           · simp
           · simp only [Bool.not_true, Bool.false_eq_true, Bool.true_eq_false, if_false]
             by_cases hg : tx.as_protoTxProvider_GetProtoTx_AuthInfo_Fee_GasLimit = gas <;> simp [hg])

/-- **C07 on the code**: what a single-Ethereum-message transaction must satisfy for `03_validate_basic` to let the rest of the
ante chain run (outside recheck mode) -/
theorem tie_validate_basic_shape (vbd : duallane_DLValidateBasicDecorator) (tx : types_Tx) (isEthTx : Bool)
    (el : iface_ProtoMessage_Reset_String) (h : verdict03 vbd tx isEthTx el = none) :
    isEthTx = true ∧
    tx.as_protoTxProvider_GetProtoTx_AuthInfo_SignerInfos = [] ∧
    tx.as_protoTxProvider_GetProtoTx_AuthInfo_Fee_Payer = "" ∧
    tx.as_protoTxProvider_GetProtoTx_AuthInfo_Fee_Granter = "" ∧
    tx.as_protoTxProvider_GetProtoTx_Signatures_len ≤ 0 ∧
    el.as_evmtypes_MsgEthereumTx_ValidateBasic = none ∧
    el.as_evmtypes_MsgEthereumTx_AsTransaction_Protected = true ∧
    (el.as_evmtypes_MsgEthereumTx_AsTransaction_To_isNil = true → vbd.ek_GetParams_GetEnableCreate = true) ∧
    (el.as_evmtypes_MsgEthereumTx_AsTransaction_To_isNil = false → vbd.ek_GetParams_GetEnableCall = true) ∧
    (∃ fee, ethFeeCoins vbd.ek_GetParams_GetEvmDenom el = some fee ∧
       Go.coinsEqual tx.as_protoTxProvider_GetProtoTx_AuthInfo_Fee_Amount fee = true) ∧
    tx.as_protoTxProvider_GetProtoTx_AuthInfo_Fee_GasLimit = el.as_evmtypes_MsgEthereumTx_AsTransaction_Gas := by
  unfold verdict03 at h
  simp only [guardWith_none] at h
  obtain ⟨h1, _, _, h2, h3, h4, h5, _, h7, h8, h9, h⟩ := h
  split at h
  · simp at h
  rename_i fee hfee
  simp only [guardWith_none] at h
  obtain ⟨h10, h11, _⟩ := h
  refine ⟨by simpa using h1, by simpa using h2, ?_, ?_, by omega, by simpa using h5, by simpa using h9, ?_, ?_,
    ⟨fee, hfee, by simpa using h10⟩, by simpa using h11⟩
  · by_cases hp : tx.as_protoTxProvider_GetProtoTx_AuthInfo_Fee_Payer = "" <;> simp_all
  · by_cases hp : tx.as_protoTxProvider_GetProtoTx_AuthInfo_Fee_Granter = "" <;> simp_all
  · intro hn; cases hc : vbd.ek_GetParams_GetEnableCreate <;> simp_all
  · intro hn; cases hc : vbd.ek_GetParams_GetEnableCall <;> simp_all

/-- `Coins.Equal` against the (at most one) coin of the Ethereum fee: the declared fee *is* that coin list -/
theorem coinsEqual_newCoins1 (a : List Go.Coin) (c : Go.Coin) (h : Go.coinsEqual a (Go.newCoins1 c) = true) : a = Go.newCoins1 c := by
  unfold Go.coinsEqual Go.newCoins1 at *
  by_cases hz : c.Amount = 0
  · simp only [hz, if_true, List.length_nil, Bool.and_eq_true, decide_eq_true_eq] at h ⊢
    exact List.eq_nil_of_length_eq_zero h.1
  · simp only [hz, if_false, List.length_singleton, Bool.and_eq_true, decide_eq_true_eq] at h ⊢
    obtain ⟨hl, hs⟩ := h
    match a, hl with
    | [x], _ => simpa using hs

/-- recheck mode: the decorator does nothing (the shape was checked when the transaction entered the mempool) -/
theorem tie_validate_basic_recheck (vbd : duallane_DLValidateBasicDecorator) (ctx : types_Context) (tx : types_Tx) (sim : Bool) (next : Next)
    (hre : ctx.IsReCheckTx = true) :
    duallane_DLValidateBasicDecorator_AnteHandle vbd ctx tx sim next = some (next sim).2 := by
  unfold duallane_DLValidateBasicDecorator_AnteHandle; simp [hre]

/-- the Cosmos side of `03`: a transaction that is *not* a single-Ethereum-message transaction is refused as soon as any of
its messages is a `MsgEthereumTx`; otherwise the SDK's own ValidateBasic decorator runs -/
theorem mixed_range (vbd : duallane_DLValidateBasicDecorator) (ctx : types_Context) (tx : types_Tx) (sim : Bool) (next : Next)
    (err : Option String) : ∀ (ms : List iface_ProtoMessage_Reset_String) (ix : Int),
    duallane_DLValidateBasicDecorator_AnteHandle.range1 ms ix vbd ctx tx sim next err =
      some (if ms.any (·.is_evmtypes_MsgEthereumTx) then some "ErrLogic" else (vbd.cd_AnteHandle_tx sim next).2) := by
  intro ms
  induction ms with
  | nil => intro ix; simp [duallane_DLValidateBasicDecorator_AnteHandle.range1, duallane_DLValidateBasicDecorator_AnteHandle.k2]
  | cons m tl ih =>
    intro ix
    unfold duallane_DLValidateBasicDecorator_AnteHandle.range1
    cases hm : m.is_evmtypes_MsgEthereumTx <;> simp [hm, ih]

theorem tie_validate_basic_mixed (vbd : duallane_DLValidateBasicDecorator) (ctx : types_Context) (tx : types_Tx) (sim : Bool) (next : Next)
    (hre : ctx.IsReCheckTx = false) (hs : utils_HasSingleEthereumMessage tx = some false) :
    duallane_DLValidateBasicDecorator_AnteHandle vbd ctx tx sim next =
      some (if tx.GetMsgs.any (·.is_evmtypes_MsgEthereumTx) then some "ErrLogic" else (vbd.cd_AnteHandle_tx sim next).2) := by
  unfold duallane_DLValidateBasicDecorator_AnteHandle
  simp only [hre, hs, Bool.false_eq_true, if_false, Bool.not_false, if_true]
  exact mixed_range _ _ _ _ _ _ _ _

end Evermint.Facts.TieAnteBasic
