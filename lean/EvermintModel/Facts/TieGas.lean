import EvermintModel.Facts.GenCode
import EvermintModel.Base.GoSemLemmas
/-!
Tie theorems for C05 / C20: the transaction gas meter of Ethereum transactions (`/repo/types/gasmeter.go`,
`infiniteGasMeterWithLimit`) and `Keeper.ResetGasMeterAndConsumeGas` (`x/evm/keeper/gas.go`), **as translated from the Go
source on this run**.  `ApplyTransaction` ends with `ResetGasMeterAndConsumeGas(ctx, res.GasUsed)`: the reading of this
meter is what `ExecTxResult.GasUsed` reports, so "every transaction whose execution is committed reports the same gas
used in its consensus result as in its receipt" is the statement `tie_reset_reads_gas_used` below — for *every* previous
reading of the meter and every gas used, not for the values a run happens to produce.
-/
namespace Evermint.Facts.TieGas
open Evermint Evermint.GenCode

/-- `addUint64Overflow`: the exact sum, or the overflow flag — never a wrapped sum -/
theorem tie_add_overflow (a b : Nat) (ha : a < 2^64) (_hb : b < 2^64) :
    types_addUint64Overflow a b = some (if a + b < 2^64 then (a + b, false) else (0, true)) := by
  unfold types_addUint64Overflow
  have h1 : Go.usub 64 18446744073709551615 a = 18446744073709551615 - a := by
    apply Go.usub_of_le <;> omega
  rw [h1]
  by_cases h : a + b < 2^64
  · have : ¬ (18446744073709551615 - a < b) := by omega
    simp only [this, decide_false, Bool.false_eq_true, if_false, h, if_true]
    rw [Go.uadd_of_lt _ _ h]
  · have : 18446744073709551615 - a < b := by omega
    simp [this, h]

/-- `ConsumeGas` of the Ethereum transaction meter: adds exactly, and panics (overflow error, recovered by `runTx`)
instead of wrapping; it never runs out of gas -/
theorem tie_consume_gas (g : types_infiniteGasMeterWithLimit) (amount : Nat) (d : String)
    (hg : g.consumed < 2^64) (ha : amount < 2^64) :
    types_infiniteGasMeterWithLimit_ConsumeGas g amount d =
      if g.consumed + amount < 2^64 then some { g with consumed := g.consumed + amount } else none := by
  unfold types_infiniteGasMeterWithLimit_ConsumeGas
  rw [tie_add_overflow _ _ hg ha]
  by_cases h : g.consumed + amount < 2^64 <;> simp [h]

/-- `RefundGas`: subtracts exactly; a refund above the reading panics -/
theorem tie_refund_gas_meter (g : types_infiniteGasMeterWithLimit) (amount : Nat) (d : String) (hg : g.consumed < 2^64) :
    types_infiniteGasMeterWithLimit_RefundGas g amount d =
      if g.consumed < amount then none else some { g with consumed := g.consumed - amount } := by
  unfold types_infiniteGasMeterWithLimit_RefundGas
  by_cases h : g.consumed < amount
  · simp [h]
  · have hle : amount ≤ g.consumed := by omega
    simp only [h, decide_false, Bool.false_eq_true, if_false]
    rw [Go.usub_of_le _ _ hle hg]

/-- the two calls `ResetGasMeterAndConsumeGas` makes on the context's meter, in this order: refund the whole reading, then
consume `gasUsed` -/
theorem tie_reset_effects (k : keeper_Keeper) (ctx : types_Context) (gasUsed : Nat) :
    keeper_Keeper_ResetGasMeterAndConsumeGas k ctx gasUsed =
      some [Go.Effect.mk "ctx.GasMeter.RefundGas" [(ctx.GasMeter_GasConsumed : Int)],
            Go.Effect.mk "ctx.GasMeter.ConsumeGas" [(gasUsed : Int)]] := by
  unfold keeper_Keeper_ResetGasMeterAndConsumeGas; rfl

/-- run an effect of the meter through the translated meter methods -/
def applyMeter (g : types_infiniteGasMeterWithLimit) (e : Go.Effect) : Option types_infiniteGasMeterWithLimit :=
  match e.name, e.args with
  | "ctx.GasMeter.RefundGas", [n] => types_infiniteGasMeterWithLimit_RefundGas g n.toNat ""
  | "ctx.GasMeter.ConsumeGas", [n] => types_infiniteGasMeterWithLimit_ConsumeGas g n.toNat ""
  | _, _ => some g

def applyMeterAll : types_infiniteGasMeterWithLimit → List Go.Effect → Option types_infiniteGasMeterWithLimit
  | g, [] => some g
  | g, e :: es => match applyMeter g e with
    | none => none
    | some g' => applyMeterAll g' es

/-- **after `ResetGasMeterAndConsumeGas(ctx, gasUsed)` the transaction's meter reads exactly `gasUsed`** (and nothing
panics), whatever it read before: the consensus result's gas used is the receipt's gas used -/
theorem tie_reset_reads_gas_used (k : keeper_Keeper) (ctx : types_Context) (g : types_infiniteGasMeterWithLimit) (gasUsed : Nat)
    (hread : ctx.GasMeter_GasConsumed = g.consumed) (hg : g.consumed < 2^64) (hu : gasUsed < 2^64) :
    (keeper_Keeper_ResetGasMeterAndConsumeGas k ctx gasUsed).bind (applyMeterAll g) = some { g with consumed := gasUsed } := by
  rw [tie_reset_effects]
  simp only [Option.bind_some, applyMeterAll, applyMeter, Int.toNat_natCast]
  rw [tie_refund_gas_meter _ _ _ hg]
  simp only [hread, Nat.lt_irrefl, if_false, Nat.sub_self]
  rw [tie_consume_gas _ _ _ (by simp) hu]
  simp [hu]

/-- non-vacuity: a meter that read 21000 after the ante handler, gas used 53000 -/
example : (keeper_Keeper_ResetGasMeterAndConsumeGas default { (default : types_Context) with GasMeter_GasConsumed := 21000 } 53000).bind
    (applyMeterAll { consumed := 21000 }) = some { consumed := 53000 } :=
  tie_reset_reads_gas_used _ _ { consumed := 21000 } 53000 rfl (by decide) (by decide)

/-- `x/evm Keeper.GetBaseFee` hands the fee market's base fee through unchanged: the state transition, the ante
decorators and the receipts price gas against one base fee -/
theorem tie_evm_base_fee (k : keeper_Keeper) (ctx : types_Context) :
    keeper_Keeper_GetBaseFee k ctx = some k.feeMarketKeeper_GetBaseFee := by
  unfold keeper_Keeper_GetBaseFee; rfl

end Evermint.Facts.TieGas
