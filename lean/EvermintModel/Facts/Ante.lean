import EvermintModel.Facts.Gen
import EvermintModel.Model.Ante
/-! Fact obligations for C07 / C16: the chain order, the disabled list, the depth cap and its
comparison are re-read from /repo on every run and must be what `Model/Ante.lean` transcribes. -/
namespace Evermint.Facts.Ante
open Evermint.Facts Evermint.Ante

/-- the 20 decorators of `NewAnteHandler`, in order; the model interprets 01–05, 03e, 991c–993c and takes
the verdict of the others as observed -/
theorem fact_ante_chain : Gen.anteChain =
    ["duallane.NewDualLaneSetupContextDecorator", "duallane.NewDualLaneExtensionOptionsDecorator",
     "duallane.NewDualLaneValidateBasicDecorator", "evmlane.NewEvmLaneValidateBasicEoaDecorator",
     "duallane.NewDualLaneTxTimeoutHeightDecorator", "duallane.NewDualLaneValidateMemoDecorator",
     "duallane.NewDualLaneConsumeTxSizeGasDecorator", "duallane.NewDualLaneDeductFeeDecorator",
     "duallane.NewDualLaneSetPubKeyDecorator", "duallane.NewDualLaneValidateSigCountDecorator",
     "duallane.NewDualLaneSigGasConsumeDecorator", "duallane.NewDualLaneSigVerificationDecorator",
     "duallane.NewDualLaneIncrementSequenceDecorator", "duallane.NewDualLaneRedundantRelayDecorator",
     "evmlane.NewEvmLaneSetupExecutionDecorator", "evmlane.NewEvmLaneEmitEventDecorator",
     "evmlane.NewEvmLaneExecWithoutErrorDecorator", "cosmoslane.NewCosmosLaneRejectEthereumMsgsDecorator",
     "cosmoslane.NewCosmosLaneRejectAuthzMsgsDecorator", "cosmoslane.NewCosmosLaneVestingMessagesAuthorizationDecorator"] := by
  decide +kernel

/-- url ids 0..3 of the model are exactly the configured disabled nested messages -/
theorem fact_disabled_list : Gen.disabledNestedMsgs =
    ["evmtypes.MsgEthereumTx", "sdkvesting.MsgCreateVestingAccount", "sdkvesting.MsgCreatePeriodicVestingAccount",
     "sdkvesting.MsgCreatePermanentLockedAccount"] ∧ Gen.disabledNestedMsgs.length = disabledUrls.length := by
  decide +kernel

theorem fact_nested_cap : Gen.maxNestedLevelsCount = maxNestedLevels ∧ Gen.nestedCapCompare = "nestedLvl > cap" ∧
    Gen.nestedStartLevel = 1 := by decide +kernel

end Evermint.Facts.Ante
