import EvermintModel.Facts.Gen
/-! C20 (and C01): byte slices shared between the consensus goroutine and the query goroutines. -/
namespace Evermint.Facts.KeyCapacity
open Evermint.Facts

/-- no store-key prefix has spare capacity: `append(prefix, addr...)`, executed by the consensus goroutine and by every
query goroutine (`eth_getStorageAt`, `eth_call`, …) at the same time, therefore always copies and never writes into a backing
array shared between goroutines — with spare capacity a read-only query for one account could overwrite the key block
execution is about to use for another (18 prefixes examined in the compiled code) -/
theorem fact_key_prefixes_not_shared_buffers :
    Gen.keyPrefixesWithSpareCapacity = [] ∧ Gen.keyPrefixesExamined = 18 := by decide +kernel

end Evermint.Facts.KeyCapacity
