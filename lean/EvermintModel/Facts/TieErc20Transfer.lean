import EvermintModel.Facts.GenCode
import EvermintModel.Base.GoSemLemmas
/-!
Tie theorems for C10 (and C04): the shared `transfer` helper of the ERC-20 precompile (`/repo/x/cpc/keeper/precompiles_erc20.go`) —
behind `transfer`, `transferFrom`, `burn` and `burnFrom` — **as translated from the Go source on this run**.  The bank keeper
and the StateDB are objects the translator does not interpret: their calls appear in the effect log, in call order, with the
coin amounts handed over.

* `tie_erc20_transfer`: the complete decision table, for every balance, amount, recipient kind and bank behaviour;
* **`tie_erc20_transfer_ok`**: a successful call moved or destroyed **exactly the stated amount** — one `SendCoins(from, to,
  amount)`, or `SendCoinsFromAccountToModule(from, amount)` followed by `BurnCoins(amount)` for the zero address, or nothing for a
  zero amount / a transfer to oneself — and emitted **exactly one** log, after the coins had moved;
* **`tie_erc20_transfer_fail_no_log`**: a failing call emitted no log; a recipient blocked by the bank (module accounts) and an
  insufficient balance are refused before any call on the bank.
-/
namespace Evermint.Facts.TieErc20Transfer
open Evermint Evermint.GenCode

abbrev T := keeper_erc20CustomPrecompiledContractRwTransferFrom

def coinsOf (e : T) (amount : Int) : List Go.Coin := [⟨e.contract_GetErc20Metadata_MinDenom, amount⟩]
def effToModule (amount : Int) : Go.Effect := ⟨"e.contract.keeper.bankKeeper.SendCoinsFromAccountToModule_from_Bytes", [amount]⟩
def effBurn (amount : Int) : Go.Effect := ⟨"e.contract.keeper.bankKeeper.BurnCoins", [amount]⟩
def effSend (amount : Int) : Go.Effect := ⟨"e.contract.keeper.bankKeeper.SendCoins_from_Bytes_to_Bytes", [amount]⟩
def effLog (amount : Int) : Go.Effect := ⟨"stateDB.AddLog#70cc4350", [amount]⟩
def okRet : List Nat := Go.abiBool true

/-- `differ` : from ≠ to; `toZero` : to is the zero address (the two conditions the translator leaves as inputs) -/
def spec (e : T) (differ toZero : Bool) (amount : Int) : Option (List Nat × Option String × List Go.Effect) :=
  if amount < 0 then none else
  if (e.contract_keeper_bankKeeper_GetBalance_from_Bytes e.contract_GetErc20Metadata_MinDenom).Amount < amount then
    some ([], some "ERC20InsufficientBalance(\"%s\",%s,%s)", []) else
  if amount = 0 ∨ differ = false then some (okRet, none, [effLog amount]) else
  if 2^256 ≤ amount.natAbs then none else
  if toZero then
    if e.contract_keeper_bankKeeper_SendCoinsFromAccountToModule_from_Bytes "cpc" (coinsOf e amount) ≠ none then
      some ([], some "ErrExecFailure", [effToModule amount]) else
    if e.contract_keeper_bankKeeper_BurnCoins "cpc" (coinsOf e amount) ≠ none then
      some ([], some "ErrExecFailure", [effToModule amount, effBurn amount]) else
    some (okRet, none, [effToModule amount, effBurn amount, effLog amount])
  else
    if e.contract_keeper_bankKeeper_BlockedAddr_to_Bytes then some ([], some "ERC20InvalidReceiver(\"%s\")", []) else
    if e.contract_keeper_bankKeeper_SendCoins_from_Bytes_to_Bytes (coinsOf e amount) ≠ none then
      some ([], some "ErrExecFailure", [effSend amount]) else
    some (okRet, none, [effSend amount, effLog amount])

theorem sign_lt (a : Int) : ((if a < 0 then (-1 : Int) else if a = 0 then 0 else 1) < 0) ↔ a < 0 := by
  by_cases h : a < 0
  · simp [h]
  · by_cases h0 : a = 0 <;> simp [h, h0]
theorem sign_eq0 (a : Int) : ((if a < 0 then (-1 : Int) else if a = 0 then 0 else 1) = 0) ↔ a = 0 := by
  by_cases h : a < 0
  · simp [h]; omega
  · by_cases h0 : a = 0 <;> simp [h, h0]
theorem cmp_lt (a b : Int) : ((if a < b then (-1 : Int) else if a = b then 0 else 1) < 0) ↔ a < b := by
  by_cases h : a < b
  · simp [h]
  · by_cases h0 : a = b <;> simp [h, h0]

theorem tie_erc20_transfer (e : T) (ctx : types_Context) (frm to contractAddr : common_Address) (sdb : vm_StateDB) (amount : Int) :
    keeper_erc20CustomPrecompiledContractRwTransferFrom_transfer e ctx frm to amount contractAddr sdb =
      spec e frm.cond_372f90bd to.cond_e9e23b44 amount := by
  unfold keeper_erc20CustomPrecompiledContractRwTransferFrom_transfer keeper_erc20CustomPrecompiledContractRwTransferFrom_transfer.k1
    keeper_erc20CustomPrecompiledContractRwTransferFrom_transfer.k2 spec coinsOf effToModule effBurn effSend effLog okRet
  simp only [Go.bigSign, Go.bigCmp, sign_lt, sign_eq0, cmp_lt]
  by_cases hneg : amount < 0
  · simp [hneg]
  simp only [hneg, decide_false, Bool.false_eq_true, if_false]
  generalize (e.contract_keeper_bankKeeper_GetBalance_from_Bytes e.contract_GetErc20Metadata_MinDenom).Amount = bal
  by_cases hb : bal < amount
  · simp [hb]
  simp only [hb, decide_false, Bool.false_eq_true, if_false]
  by_cases hz : amount = 0
  · subst hz; simp
  cases hd : frm.cond_372f90bd
  · simp [hz]
  · simp only [hz, decide_false, Bool.not_false, Bool.true_and, if_true, false_or, Bool.true_eq_false, if_false]
    unfold Go.sdkInt
    by_cases hbig : amount.natAbs < 2^256
    · have hbig' : ¬ (2^256 ≤ amount.natAbs) := by omega
      simp only [hbig, hbig', if_true, if_false, Go.newCoin, hneg, Go.newCoins1, hz, List.map_cons, List.map_nil, List.nil_append]
      cases to.cond_e9e23b44
      · simp only [Bool.false_eq_true, if_false]
        cases e.contract_keeper_bankKeeper_BlockedAddr_to_Bytes
        · simp only [Bool.false_eq_true, if_false]
          cases e.contract_keeper_bankKeeper_SendCoins_from_Bytes_to_Bytes _ <;> simp
        · simp
      · simp only [if_true]
        cases e.contract_keeper_bankKeeper_SendCoinsFromAccountToModule_from_Bytes "cpc" _
        · simp only [Option.isNone_none, Bool.not_true, Bool.false_eq_true, if_false, ne_eq, not_true_eq_false]
          cases e.contract_keeper_bankKeeper_BurnCoins "cpc" _ <;> simp
        · simp
    · have hbig' : 2^256 ≤ amount.natAbs := by omega
      simp [hbig, hbig']

/-- **a successful call**: exactly the stated amount, exactly one log, the log last -/
theorem tie_erc20_transfer_ok (e : T) (ctx : types_Context) (frm to contractAddr : common_Address) (sdb : vm_StateDB) (amount : Int)
    (ret : List Nat) (eff : List Go.Effect)
    (h : keeper_erc20CustomPrecompiledContractRwTransferFrom_transfer e ctx frm to amount contractAddr sdb = some (ret, none, eff)) :
    0 ≤ amount ∧ ret = okRet ∧
    (eff = [effLog amount] ∨ eff = [effSend amount, effLog amount] ∨ eff = [effToModule amount, effBurn amount, effLog amount]) := by
  rw [tie_erc20_transfer] at h
  unfold spec at h
  repeat' (split at h)
  all_goals simp_all
  all_goals omega

/-- **a failing call emits no log**; and a blocked recipient / an insufficient balance are refused before any call on the bank -/
theorem tie_erc20_transfer_fail_no_log (e : T) (ctx : types_Context) (frm to contractAddr : common_Address) (sdb : vm_StateDB) (amount : Int)
    (ret : List Nat) (err : String) (eff : List Go.Effect)
    (h : keeper_erc20CustomPrecompiledContractRwTransferFrom_transfer e ctx frm to amount contractAddr sdb = some (ret, some err, eff)) :
    effLog amount ∉ eff ∧ ((err = "ERC20InvalidReceiver(\"%s\")" ∨ err = "ERC20InsufficientBalance(\"%s\",%s,%s)") → eff = []) := by
  rw [tie_erc20_transfer] at h
  unfold spec at h
  repeat' (split at h)
  all_goals simp_all [effLog, effSend, effToModule, effBurn]
  all_goals (obtain ⟨_, h1, h2⟩ := h; subst h2; subst h1; simp)

end Evermint.Facts.TieErc20Transfer
