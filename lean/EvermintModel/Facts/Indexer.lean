import EvermintModel.Facts.Gen
/-! Fact obligations for C14. -/
namespace Evermint.Facts.Indexer
open Evermint.Facts

/-- `IndexBlock` opens one batch, stages every record through `saveTxResult` and writes once: a crash
between two database writes can only fall between two blocks -/
theorem fact_one_batch_per_block : Gen.indexBlockBatchCalls = ["kv.db.NewBatch", "saveTxResult", "batch.Write"] := by decide +kernel

/-- the restart rule of `EVMIndexerService.OnStart` as modelled by `resumeAfter`: an empty index (−1)
resumes at the node's latest height (finding F12); otherwise after the last indexed block, clamped to the
earliest block the node still has -/
theorem fact_restart_rule : Gen.indexerRestartRule =
    ["lastIndexedBlock == -*ast.BasicLit => lastIndexedBlock=latestBlock",
     "lastIndexedBlock < status.SyncInfo.EarliestBlockHeight => lastIndexedBlock=status.SyncInfo.EarliestBlockHeight",
     "lastIndexedBlock >= latestBlock => "] := by decide +kernel

end Evermint.Facts.Indexer
