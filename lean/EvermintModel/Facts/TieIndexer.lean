import EvermintModel.Facts.GenCode
import EvermintModel.Base.GoSemLemmas
import EvermintModel.Facts.TieAnte
/-!
Tie theorems for C14: the keys of the transaction indexer (`/repo/indexer/kv_indexer.go`), **as translated from the Go source on
this run**: `TxIndexKey(height, ethTxIndex)` — the key under which the hash of the transaction at a (block, index) position is
stored — and `parseBlockNumberFromKey`, by which `LoadLastBlock` / `LoadFirstBlock` read a height back from a key.

* the key is the prefix byte, eight big-endian bytes of the height, eight of the index: 17 bytes (`tie_tx_index_key`);
* **two positions never share a key** (`tie_tx_index_key_injective`): "found by (block, index)" cannot return the transaction of
  another position;
* big-endian height bytes are ordered as the heights (`tie_height_bytes_order`): the first / last key under the prefix is that of the
  lowest / highest indexed block; at the level of whole keys: a lower block's keys come first whatever the indices
  (`tie_tx_index_key_order_height`), and within a block the keys are ordered by index (`tie_tx_index_key_order_index`);
* the height read back from a key is the height it was built from (`tie_parse_block_number_roundtrip`): the resume point of the
  indexer service is a height that was really indexed.
-/
namespace Evermint.Facts.TieIndexer
open Evermint Evermint.GenCode

/-- the eight big-endian bytes, spelled out -/
theorem u64ToBe_eq (n : Nat) : Go.u64ToBe n =
    [n / 72057594037927936 % 256, n / 281474976710656 % 256, n / 1099511627776 % 256, n / 4294967296 % 256, n / 16777216 % 256, n / 65536 % 256, n / 256 % 256, n % 256] := by
  simp [Go.u64ToBe, List.range, List.range.loop]

theorem beToU64_u64ToBe (n : Nat) (h : n < 2^64) : Go.beToU64 (Go.u64ToBe n) = n := by
  have h : n < 18446744073709551616 := h
  rw [u64ToBe_eq]
  unfold Go.beToU64
  simp only [List.isEmpty_cons, Bool.false_eq_true, if_false, List.foldl_cons, List.foldl_nil, Nat.zero_mul, Nat.zero_add, Nat.mod_mod]
  have e2 : n / 65536 = n / 256 / 256 := by rw [Nat.div_div_eq_div_mul]
  have e3 : n / 16777216 = n / 256 / 256 / 256 := by rw [Nat.div_div_eq_div_mul, Nat.div_div_eq_div_mul]
  have e4 : n / 4294967296 = n / 256 / 256 / 256 / 256 := by rw [Nat.div_div_eq_div_mul, Nat.div_div_eq_div_mul, Nat.div_div_eq_div_mul]
  have e5 : n / 1099511627776 = n / 256 / 256 / 256 / 256 / 256 := by
    rw [Nat.div_div_eq_div_mul, Nat.div_div_eq_div_mul, Nat.div_div_eq_div_mul, Nat.div_div_eq_div_mul]
  have e6 : n / 281474976710656 = n / 256 / 256 / 256 / 256 / 256 / 256 := by
    rw [Nat.div_div_eq_div_mul, Nat.div_div_eq_div_mul, Nat.div_div_eq_div_mul, Nat.div_div_eq_div_mul, Nat.div_div_eq_div_mul]
  have e7 : n / 72057594037927936 = n / 256 / 256 / 256 / 256 / 256 / 256 / 256 := by
    rw [Nat.div_div_eq_div_mul, Nat.div_div_eq_div_mul, Nat.div_div_eq_div_mul, Nat.div_div_eq_div_mul, Nat.div_div_eq_div_mul, Nat.div_div_eq_div_mul]
  rw [e2, e3, e4, e5, e6, e7]
  have d0 := Nat.div_add_mod n 256
  generalize n / 256 = q1 at *
  have d1 := Nat.div_add_mod q1 256
  generalize q1 / 256 = q2 at *
  have d2 := Nat.div_add_mod q2 256
  generalize q2 / 256 = q3 at *
  have d3 := Nat.div_add_mod q3 256
  generalize q3 / 256 = q4 at *
  have d4 := Nat.div_add_mod q4 256
  generalize q4 / 256 = q5 at *
  have d5 := Nat.div_add_mod q5 256
  generalize q5 / 256 = q6 at *
  have d6 := Nat.div_add_mod q6 256
  generalize q6 / 256 = q7 at *
  have d7 := Nat.div_add_mod q7 256
  have b0 := Nat.mod_lt n (show 0 < 256 by decide)
  have b1 := Nat.mod_lt q1 (show 0 < 256 by decide)
  have b2 := Nat.mod_lt q2 (show 0 < 256 by decide)
  have b3 := Nat.mod_lt q3 (show 0 < 256 by decide)
  have b4 := Nat.mod_lt q4 (show 0 < 256 by decide)
  have b5 := Nat.mod_lt q5 (show 0 < 256 by decide)
  have b6 := Nat.mod_lt q6 (show 0 < 256 by decide)
  have b7 := Nat.mod_lt q7 (show 0 < 256 by decide)
  generalize n % 256 = r0 at *
  generalize q1 % 256 = r1 at *
  generalize q2 % 256 = r2 at *
  generalize q3 % 256 = r3 at *
  generalize q4 % 256 = r4 at *
  generalize q5 % 256 = r5 at *
  generalize q6 % 256 = r6 at *
  generalize q7 % 256 = r7 at *
  generalize q7 / 256 = q8 at *
  omega

theorem u64ToBe_injective (a b : Nat) (ha : a < 2^64) (hb : b < 2^64) (h : Go.u64ToBe a = Go.u64ToBe b) : a = b := by
  have := congrArg Go.beToU64 h
  rwa [beToU64_u64ToBe a ha, beToU64_u64ToBe b hb] at this

theorem u64ToBe_length (n : Nat) : (Go.u64ToBe n).length = 8 := by rw [u64ToBe_eq]; rfl

theorem toU_lt (x : Int) : Go.toU 64 x < 2^64 := by
  unfold Go.toU
  have h1 : 0 ≤ x % 2^64 := Int.emod_nonneg _ (by decide)
  have h2 : x % 2^64 < 2^64 := Int.emod_lt_of_pos _ (by decide)
  omega

/-- two's complement conversion to uint64 is injective on the int64 range (heights) and on the int32 range (indices) -/
theorem toU_injective (x y : Int) (hx : -2^63 ≤ x ∧ x < 2^63) (hy : -2^63 ≤ y ∧ y < 2^63) (h : Go.toU 64 x = Go.toU 64 y) : x = y := by
  unfold Go.toU at h
  have h1 : 0 ≤ x % 2^64 := Int.emod_nonneg _ (by decide)
  have h2 : 0 ≤ y % 2^64 := Int.emod_nonneg _ (by decide)
  have h3 : x % 2^64 = y % 2^64 := by omega
  omega

theorem tie_tx_index_key (height index : Int) :
    indexer_TxIndexKey height index = some ([2] ++ Go.u64ToBe (Go.toU 64 height) ++ Go.u64ToBe (Go.toU 64 index)) := by
  unfold indexer_TxIndexKey; rfl

theorem tie_tx_index_key_length (height index : Int) (k : List Nat) (h : indexer_TxIndexKey height index = some k) : k.length = 17 := by
  rw [tie_tx_index_key] at h
  injection h with h; subst h
  simp [u64ToBe_length]

/-- **two (block, index) positions never share an index key** -/
theorem tie_tx_index_key_injective (h1 i1 h2 i2 : Int)
    (hh1 : -2^63 ≤ h1 ∧ h1 < 2^63) (hh2 : -2^63 ≤ h2 ∧ h2 < 2^63) (hi1 : -2^31 ≤ i1 ∧ i1 < 2^31) (hi2 : -2^31 ≤ i2 ∧ i2 < 2^31)
    (h : indexer_TxIndexKey h1 i1 = indexer_TxIndexKey h2 i2) : h1 = h2 ∧ i1 = i2 := by
  rw [tie_tx_index_key, tie_tx_index_key] at h
  injection h with h
  simp only [List.append_assoc, List.cons_append, List.nil_append, List.cons.injEq, true_and] at h
  have hl : (Go.u64ToBe (Go.toU 64 h1)).length = (Go.u64ToBe (Go.toU 64 h2)).length := by simp [u64ToBe_length]
  obtain ⟨ha, hb⟩ := List.append_inj h hl
  have e1 := u64ToBe_injective _ _ (toU_lt h1) (toU_lt h2) ha
  have e2 := u64ToBe_injective _ _ (toU_lt i1) (toU_lt i2) hb
  exact ⟨toU_injective _ _ hh1 hh2 e1, toU_injective _ _ (by omega) (by omega) e2⟩

/-- **the height read back from an index key is the height the key was built from** -/
theorem tie_parse_block_number_roundtrip (height index : Int) (hh : -2^63 ≤ height ∧ height < 2^63) (k : List Nat)
    (h : indexer_TxIndexKey height index = some k) : indexer_parseBlockNumberFromKey k = some (height, none) := by
  have hlen := tie_tx_index_key_length height index k h
  rw [tie_tx_index_key] at h
  injection h with h; subst h
  unfold indexer_parseBlockNumberFromKey
  have hl : ((([2] ++ Go.u64ToBe (Go.toU 64 height) ++ Go.u64ToBe (Go.toU 64 index)).length : Nat) : Int) = 17 := by
    simp [u64ToBe_length]
  simp only [hl, decide_true, Bool.not_true, Bool.false_eq_true, if_false]
  have hs : Go.sliceBytes ([2] ++ Go.u64ToBe (Go.toU 64 height) ++ Go.u64ToBe (Go.toU 64 index)) 1 9 = some (Go.u64ToBe (Go.toU 64 height)) := by
    unfold Go.sliceBytes
    have : (0 : Int) ≤ 1 ∧ (1 : Int) ≤ 9 ∧ (9 : Int) ≤ (([2] ++ Go.u64ToBe (Go.toU 64 height) ++ Go.u64ToBe (Go.toU 64 index)).length : Int) := by
      rw [hl]; omega
    simp only [this, and_self, if_true]
    have e8 := u64ToBe_length (Go.toU 64 height)
    generalize Go.u64ToBe (Go.toU 64 height) = A at *
    generalize Go.u64ToBe (Go.toU 64 index) = B
    simp only [List.cons_append, List.nil_append, Int.toNat_one, List.drop_succ_cons, List.drop_zero]
    have : ((9 : Int) - 1).toNat = 8 := by decide
    rw [this, List.take_append_of_le_length (by omega), ← e8, List.take_length]
  rw [hs]
  simp only [beToU64_u64ToBe _ (toU_lt height)]
  have hback : Go.toI 64 ((Go.toU 64 height : Nat) : Int) = height := by
    unfold Go.toI Go.iwrap Go.toU
    have h1 : 0 ≤ height % 18446744073709551616 := Int.emod_nonneg _ (by decide)
    have h2 : height % 18446744073709551616 < 18446744073709551616 := Int.emod_lt_of_pos _ (by decide)
    obtain ⟨ha, hb⟩ := hh
    have ha' : -9223372036854775808 ≤ height := by simpa using ha
    have hb' : height < 9223372036854775808 := by simpa using hb
    simp only [Nat.reducePow, Nat.reduceSub, Int.reducePow]
    rw [Int.toNat_of_nonneg h1]
    omega
  rw [hback]

/-- a key of another length is refused (no height is made up) -/
theorem tie_parse_block_number_refuses (k : List Nat) (h : k.length ≠ 17) :
    indexer_parseBlockNumberFromKey k = some (0, some "wrong tx index key length, expect: %d, got: %d") := by
  unfold indexer_parseBlockNumberFromKey
  have : ¬ ((k.length : Int) = 17) := by omega
  simp [this]

/-- **big-endian height bytes are ordered as the heights**: in the byte order of the key-value store the index keys of a lower
    block come first, so the first / last key under the prefix (`LoadFirstBlock` / `LoadLastBlock`) belongs to the lowest / highest indexed block -/
theorem tie_height_bytes_order (a b : Nat) (ha : a < 2^64) (hb : b < 2^64) (h : a < b) : Go.u64ToBe a < Go.u64ToBe b := by
  have ea := beToU64_u64ToBe a ha
  have eb := beToU64_u64ToBe b hb
  rw [u64ToBe_eq a] at ea ⊢
  rw [u64ToBe_eq b] at eb ⊢
  unfold Go.beToU64 at ea eb
  simp only [List.isEmpty_cons, Bool.false_eq_true, if_false, List.foldl_cons, List.foldl_nil, Nat.zero_mul, Nat.zero_add, Nat.mod_mod] at ea eb
  have a0 := Nat.mod_lt a (show 0 < 256 by decide)
  have a1 := Nat.mod_lt (a / 256) (show 0 < 256 by decide)
  have a2 := Nat.mod_lt (a / 65536) (show 0 < 256 by decide)
  have a3 := Nat.mod_lt (a / 16777216) (show 0 < 256 by decide)
  have a4 := Nat.mod_lt (a / 4294967296) (show 0 < 256 by decide)
  have a5 := Nat.mod_lt (a / 1099511627776) (show 0 < 256 by decide)
  have a6 := Nat.mod_lt (a / 281474976710656) (show 0 < 256 by decide)
  have a7 := Nat.mod_lt (a / 72057594037927936) (show 0 < 256 by decide)
  have b0 := Nat.mod_lt b (show 0 < 256 by decide)
  have b1 := Nat.mod_lt (b / 256) (show 0 < 256 by decide)
  have b2 := Nat.mod_lt (b / 65536) (show 0 < 256 by decide)
  have b3 := Nat.mod_lt (b / 16777216) (show 0 < 256 by decide)
  have b4 := Nat.mod_lt (b / 4294967296) (show 0 < 256 by decide)
  have b5 := Nat.mod_lt (b / 1099511627776) (show 0 < 256 by decide)
  have b6 := Nat.mod_lt (b / 281474976710656) (show 0 < 256 by decide)
  have b7 := Nat.mod_lt (b / 72057594037927936) (show 0 < 256 by decide)
  generalize a % 256 = x0 at *
  generalize a / 256 % 256 = x1 at *
  generalize a / 65536 % 256 = x2 at *
  generalize a / 16777216 % 256 = x3 at *
  generalize a / 4294967296 % 256 = x4 at *
  generalize a / 1099511627776 % 256 = x5 at *
  generalize a / 281474976710656 % 256 = x6 at *
  generalize a / 72057594037927936 % 256 = x7 at *
  generalize b % 256 = y0 at *
  generalize b / 256 % 256 = y1 at *
  generalize b / 65536 % 256 = y2 at *
  generalize b / 16777216 % 256 = y3 at *
  generalize b / 4294967296 % 256 = y4 at *
  generalize b / 1099511627776 % 256 = y5 at *
  generalize b / 281474976710656 % 256 = y6 at *
  generalize b / 72057594037927936 % 256 = y7 at *
  subst ea eb
  rcases Nat.lt_trichotomy x7 y7 with h7 | h7 | h7
  · exact List.cons_lt_cons_iff.mpr (Or.inl h7)
  · refine List.cons_lt_cons_iff.mpr (Or.inr ⟨h7, ?_⟩)
    rcases Nat.lt_trichotomy x6 y6 with h6 | h6 | h6
    · exact List.cons_lt_cons_iff.mpr (Or.inl h6)
    · refine List.cons_lt_cons_iff.mpr (Or.inr ⟨h6, ?_⟩)
      rcases Nat.lt_trichotomy x5 y5 with h5 | h5 | h5
      · exact List.cons_lt_cons_iff.mpr (Or.inl h5)
      · refine List.cons_lt_cons_iff.mpr (Or.inr ⟨h5, ?_⟩)
        rcases Nat.lt_trichotomy x4 y4 with h4 | h4 | h4
        · exact List.cons_lt_cons_iff.mpr (Or.inl h4)
        · refine List.cons_lt_cons_iff.mpr (Or.inr ⟨h4, ?_⟩)
          rcases Nat.lt_trichotomy x3 y3 with h3 | h3 | h3
          · exact List.cons_lt_cons_iff.mpr (Or.inl h3)
          · refine List.cons_lt_cons_iff.mpr (Or.inr ⟨h3, ?_⟩)
            rcases Nat.lt_trichotomy x2 y2 with h2 | h2 | h2
            · exact List.cons_lt_cons_iff.mpr (Or.inl h2)
            · refine List.cons_lt_cons_iff.mpr (Or.inr ⟨h2, ?_⟩)
              rcases Nat.lt_trichotomy x1 y1 with h1 | h1 | h1
              · exact List.cons_lt_cons_iff.mpr (Or.inl h1)
              · refine List.cons_lt_cons_iff.mpr (Or.inr ⟨h1, ?_⟩)
                refine List.cons_lt_cons_iff.mpr (Or.inl ?_)
                omega
              · omega
            · omega
          · omega
        · omega
      · omega
    · omega
  · omega

theorem append_lt_append_of_lt (A1 : List Nat) : ∀ (A2 B1 B2 : List Nat), A1.length = A2.length → A1 < A2 → A1 ++ B1 < A2 ++ B2 := by
  induction A1 with
  | nil =>
    intro A2 B1 B2 hl h
    cases A2 with
    | nil => exact absurd h (List.lt_irrefl _)
    | cons y ys => simp at hl
  | cons x xs ih =>
    intro A2 B1 B2 hl h
    cases A2 with
    | nil => simp at hl
    | cons y ys =>
      simp only [List.length_cons, Nat.add_right_cancel_iff] at hl
      rcases List.cons_lt_cons_iff.mp h with hlt | ⟨he, hlt⟩
      · exact List.cons_lt_cons_iff.mpr (Or.inl hlt)
      · exact List.cons_lt_cons_iff.mpr (Or.inr ⟨he, ih ys B1 B2 hl hlt⟩)

theorem toU_of_nonneg (x : Int) (h : 0 ≤ x ∧ x < 2^63) : Go.toU 64 x = x.toNat := by
  unfold Go.toU
  have : x % 2^64 = x := Int.emod_eq_of_lt h.1 (by omega)
  rw [this]

/-- **the index keys of a lower block come first in the byte order of the store**, whatever the indices -/
theorem tie_tx_index_key_order_height (h1 i1 h2 i2 : Int) (hh1 : 0 ≤ h1) (hlt : h1 < h2) (hh2 : h2 < 2^63) (k1 k2 : List Nat)
    (e1 : indexer_TxIndexKey h1 i1 = some k1) (e2 : indexer_TxIndexKey h2 i2 = some k2) : k1 < k2 := by
  rw [tie_tx_index_key] at e1 e2
  injection e1 with e1; injection e2 with e2; subst e1 e2
  rw [List.append_assoc, List.append_assoc]
  apply List.append_left_lt
  apply append_lt_append_of_lt _ _ _ _ (by simp [u64ToBe_length])
  rw [toU_of_nonneg h1 ⟨hh1, by omega⟩, toU_of_nonneg h2 ⟨by omega, hh2⟩]
  apply tie_height_bytes_order <;> omega

/-- **within one block the index keys are ordered by the transaction index** -/
theorem tie_tx_index_key_order_index (h i1 i2 : Int) (hi1 : 0 ≤ i1) (hlt : i1 < i2) (hi2 : i2 < 2^31) (k1 k2 : List Nat)
    (e1 : indexer_TxIndexKey h i1 = some k1) (e2 : indexer_TxIndexKey h i2 = some k2) : k1 < k2 := by
  rw [tie_tx_index_key] at e1 e2
  injection e1 with e1; injection e2 with e2; subst e1 e2
  apply List.append_left_lt
  rw [toU_of_nonneg i1 ⟨hi1, by omega⟩, toU_of_nonneg i2 ⟨by omega, by omega⟩]
  apply tie_height_bytes_order <;> omega

/-- **the indexer's filter is the ante chain's lane classifier**: `indexer.isEthTx` — by which `IndexBlock` decides whether a
    transaction of the block gets an index entry — is, as generated from today's source, `dlanteutils.IsEthereumTx`, the very
    function by which the dual-lane ante handler routes a transaction to the Ethereum lane -/
theorem tie_indexer_is_eth_tx (tx : types_Tx) : indexer_isEthTx tx = utils_IsEthereumTx tx := by
  unfold indexer_isEthTx
  cases utils_IsEthereumTx tx <;> rfl

/-- over the model's transactions: indexed ⇔ `Ante.isEthereumTx` (a single Ethereum message with exactly the Ethereum extension option) —
    a transaction executed on the Ethereum lane is never skipped by the indexer, a Cosmos-lane one never indexed; total (no panic) -/
theorem tie_indexer_filter_is_lane (t : Ante.Tx) : indexer_isEthTx (TieAnte.txView t true) = some (Ante.isEthereumTx t) := by
  rw [tie_indexer_is_eth_tx]; exact TieAnte.tie_is_ethereum_tx t

example : indexer_TxIndexKey 258 3 = some [2, 0, 0, 0, 0, 0, 0, 1, 2, 0, 0, 0, 0, 0, 0, 0, 3] := by decide

end Evermint.Facts.TieIndexer
