import EvermintModel.Facts.Gen
import EvermintModel.Model.Eip712
import EvermintModel.Model.Sig
/-!
# Facts tying `Model/Sig.lean` and `Model/Eip712.lean` to `/repo/crypto/ethsecp256k1`, `/repo/ethereum/eip712`
and `/repo/x/cpc/eip712`  (regenerated every run)
-/
namespace Evermint.Facts.Crypto
open Evermint.Facts

/-- `VerifySignature = verifyECDSA(msg) || verifyAsEIP712(msg)` — the disjunction of `Sig.verify` -/
theorem fact_verify_shape :
    Gen.verifySignatureReturns = ["pubKey.verifySignatureECDSA(msg,sig)||pubKey.verifySignatureAsEIP712(msg,sig)"] ∧
    Gen.verifyAsEIP712Returns = ["false", "pubKey.verifySignatureECDSA(eip712Bytes,sig)"] := by decide +kernel

/-- `verifyECDSA`: the only length that is stripped is 65 (`crypto.SignatureLength`), the digest is the
Keccak-256 of the bytes given, the key is the receiver's — `Sig.verifyECDSA` -/
theorem fact_verify_ecdsa :
    Gen.verifyECDSAConds = ["len(sig)==crypto.SignatureLength"] ∧
    Gen.verifyECDSAReturns = ["crypto.VerifySignature(pubKey.Key,crypto.Keccak256Hash(msg).Bytes(),sig)"] := by decide +kernel

theorem fact_key_sizes : Gen.ethsecp256k1PrivKeySize = 32 ∧ Gen.ethsecp256k1PubKeySize = 33 := by decide +kernel

/-- the address is computed from the *decompressed* key by go-ethereum's `PubkeyToAddress` -/
theorem fact_address_calls :
    Gen.addressCalls = ["crypto.DecompressPubkey", "tmcrypto.Address", "crypto.PubkeyToAddress().Bytes", "crypto.PubkeyToAddress"] := by decide +kernel

private def renderMembers (ms : Eip712.Members) : String := ",".intercalate (ms.map (fun (n, ty) => n ++ " " ++ ty))

/-- the fixed type table of `createEIP712Types` is `Eip712.fixedTypes` -/
theorem fact_eip712_fixed_types :
    Gen.eip712FixedTypes = Eip712.fixedTypes.map (fun (n, ms) => n ++ ":" ++ renderMembers ms) := by decide +kernel

theorem fact_eip712_consts :
    Gen.eip712Consts = ["rootPrefix=_", "typePrefix=Type", "txField=Tx", "ethBool=bool", "ethInt64=int64", "ethString=string",
      "msgTypeField=type", "maxDuplicateTypeDefs=" ++ toString Eip712.maxDuplicateTypeDefs, "payloadMsgsField=msgs"] := by decide +kernel

/-- the domain literal is the one `Eip712.domainEnc` encodes, with the chain id of the sign document -/
theorem fact_eip712_domain :
    Gen.eip712Domain = ["Name=Cosmos Web3", "Version=1.0.0", "ChainId=math.NewHexOrDecimal256(int64(chainID))", "VerifyingContract=cosmos", "Salt=0"] := by decide +kernel

/-- keys are visited in descending order; the amino decoding is tried before the protobuf one -/
theorem fact_eip712_orders :
    Gen.eip712KeyOrder = ["strings.Compare(keys[i],keys[j])>0"] ∧
    Gen.eip712DecodeOrder = ["errAmino==nil&&isValidEIP712Payload(typedDataAmino)", "errProtobuf==nil&&isValidEIP712Payload(typedDataProtobuf)"] := by decide +kernel

/-- the precompiles' verifier hashes the typed message for the chain id it is given, recovers and compares with
the expected address (`StakingCpc.toNative`: `rec ≠ some md → none`) -/
theorem fact_cpc_verify :
    Gen.cpcVerifyCalls = ["EIP712HashingTypedMessage", "crypto.Ecrecover", "crypto.UnmarshalPubkey", "crypto.PubkeyToAddress"] ∧
    Gen.cpcVerifyMatch = ["recoveredAddress==expectedAddress"] := by decide +kernel

end Evermint.Facts.Crypto
