import EvermintModel.Facts.Gen
import EvermintModel.Model.VAuth
/-! Fact obligations for C16: the fixed fee and the fixed message are what /repo says now. -/
namespace Evermint.Facts.VAuth
open Evermint.Facts

theorem fact_vauth_cost : Gen.vauthCost = Evermint.VAuth.cost := by decide +kernel
/-- `MessageToSign = ModuleName = "vauth"`: the message is a constant, not caller-supplied -/
theorem fact_vauth_message : Gen.vauthMessageToSign = "vauth" := by decide +kernel

end Evermint.Facts.VAuth
