import EvermintModel.Facts.Gen
import EvermintModel.Model.FeeMarket
/-! Fact obligations for C09: the model's parameters equal what /repo and the fork say *now*. -/
namespace Evermint.Facts.C09
open Evermint.Facts Evermint.FeeMarket

theorem fact_elasticity : Gen.elasticityMultiplier = londonConsts.elasticity := by decide
theorem fact_changeDenom : Gen.baseFeeChangeDenominator = londonConsts.changeDenom := by decide

/-- every fork block is forced to 0 by `validateBlock`, so London (and `CalcBaseFee`'s real
branch) is active at every height -/
theorem fact_london_always : Gen.validateBlockCond = "block == nil || !block.IsZero()" := by decide

/-- the fee market end-blocker runs after every module that consumes block gas (evm) -/
theorem fact_feemarket_endblock_last :
    (Gen.endBlockers.idxOf "evm" < Gen.endBlockers.idxOf "feemarket") ∧
    Gen.endBlockers.idxOf "feemarket" < Gen.endBlockers.length := by decide

/-- … and after every end-blocker that can execute messages or change parameters (crisis, gov — which
runs passed proposals, e.g. a fee-market `MsgUpdateParams` raising the minimum gas price — and staking):
the base fee written for the next block is computed from, and clamped by, the final parameters -/
theorem fact_feemarket_after_gov : Gen.endBlockers.take 5 = ["crisis", "gov", "staking", "evm", "feemarket"] := by decide

/-- `MaxGas > 0` is the only condition under which a finite gas limit is used (model: `gasLimitOf`) -/
theorem fact_maxgas_guard : Gen.calculateBaseFeeMaxGasConds = ["consParams.Block.MaxGas > 0"] := by decide

/-- the guards of `CalculateBaseFee`, in order: finite gas limit only for `MaxGas > 0`; **the zero-target guard is
on the gas target** (limit / elasticity), not on the limit — `MaxGas = 1` has target 0 and must keep the base fee
(model: `calcBaseFee` returns the current fee when `L / elasticity = 0`; `C09_total_no_divzero`); saturation at 256 bits -/
theorem fact_basefee_guards :
    Gen.calculateBaseFeeGuards =
      ["consParams.Block!=nil&&consParams.Block.MaxGas>0",
       "gasLimit.Uint64()/ethparams.ElasticityMultiplier==0",
       "nextBaseFee.BitLen()>sdkmath.MaxBitLen"] := by decide +kernel

/-- **one base fee**: the EVM keeper returns the fee market's stored base fee unmodified, and the fee market returns the
parameter itself — so the ante handler (charge), the message server (refund) and the EVM configuration (effective price
of the receipt) price a transaction with one and the same number (`C05_one_price` assumes exactly that) -/
theorem fact_one_base_fee :
    Gen.evmGetBaseFeeReturns = ["k.feeMarketKeeper.GetBaseFee(ctx)"] ∧
    Gen.feemarketGetBaseFeeReturns = ["k.GetParams(ctx).BaseFee"] := by decide +kernel

end Evermint.Facts.C09
