import EvermintModel.Facts.Gen
import EvermintModel.Model.CallTree
/-! Fact obligations for C12 (and C20's selector guards): the fork's call-site literals, `RunCustom`'s
guard and the whole method table of every registered custom precompile, regenerated on every run. -/
namespace Evermint.Facts.Cpc
open Evermint.Facts Evermint.CallTree

/-- the `readOnly` literal at each `RunPrecompiledContract` call site of the pinned fork = `readOnlyArg` -/
theorem fact_fork_readonly_literals :
    Gen.forkRunPrecompiledReadOnlyArg = [("EVM.Call", "false"), ("EVM.CallCode", "false"), ("EVM.DelegateCall", "false"), ("EVM.StaticCall", "true")] ∧
    readOnlyArg .call = false ∧ readOnlyArg .callcode = false ∧ readOnlyArg .delegatecall = false ∧ readOnlyArg .staticcall = true := by
  decide +kernel

/-- `RunCustom` refuses exactly when `readOnly && !method.ReadOnly` -/
theorem fact_fork_runcustom_guard : Gen.forkRunCustomGuards.contains "readOnly && !method.ReadOnly" = true := by decide +kernel

/-- **C12 (read-only methods never write).** Every method declared read-only, of every registered
precompile, reaches no state-writing API and no `AddLog` (write census of its executor body). -/
theorem C12_ro_no_write : (Gen.cpcMethods.filter (·.readOnly)).all (fun m => m.writes == []) = true := by decide +kernel

/-- **C12 (state-changing methods charge gas).** -/
theorem C12_rw_gas : (Gen.cpcMethods.filter (fun m => !m.readOnly)).all (fun m => m.gas > 0) = true := by decide +kernel

/-- conversely every method that reaches a write API is declared state-changing -/
theorem C12_writers_declared : (Gen.cpcMethods.filter (fun m => m.writes != [])).all (fun m => !m.readOnly) = true := by decide +kernel

/-- every hard-coded selector equals the ABI id of a method of the contract's ABI; the tables are non-empty -/
theorem fact_selectors_match_abi : Gen.cpcMethods.all (fun m => m.selector == m.abiId && m.abiId != "") = true ∧
    (Gen.cpcMethods.filter (·.contract == "erc20")).length = Gen.abiMethodCount_erc20 ∧
    (Gen.cpcMethods.filter (·.contract == "staking")).length = Gen.abiMethodCount_staking ∧
    (Gen.cpcMethods.filter (·.contract == "bech32")).length = Gen.abiMethodCount_bech32 ∧
    Gen.cpcMethods.length = 38 := by decide +kernel

/-- the model's `isWrite` classification of the ERC-20 methods is the declared one -/
theorem fact_erc20_iswrite :
    ((Gen.cpcMethods.filter (·.contract == "erc20")).filter (fun m => !m.readOnly)).map (·.name) =
      ["approve(address,uint256)", "transferFrom(address,address,uint256)", "burn(uint256)", "burnFrom(address,uint256)", "transfer(address,uint256)"] := by
  decide +kernel

end Evermint.Facts.Cpc
