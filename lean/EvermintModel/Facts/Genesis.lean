import EvermintModel.Facts.Gen
/-! Fact obligation for C18: module init order — auth and bank before evm (contract accounts must exist as
base accounts when `x/evm` InitGenesis runs), staking before cpc (bond denom for the native ERC-20), evm
before cpc and feemarket. -/
namespace Evermint.Facts.Genesis
open Evermint.Facts

theorem fact_init_genesis_order :
    Gen.initGenesis.idxOf "auth" < Gen.initGenesis.idxOf "evm" ∧ Gen.initGenesis.idxOf "bank" < Gen.initGenesis.idxOf "evm" ∧
    Gen.initGenesis.idxOf "staking" < Gen.initGenesis.idxOf "cpc" ∧ Gen.initGenesis.idxOf "bank" < Gen.initGenesis.idxOf "cpc" ∧
    Gen.initGenesis.idxOf "evm" < Gen.initGenesis.idxOf "cpc" ∧ Gen.initGenesis.idxOf "cpc" < Gen.initGenesis.length ∧
    Gen.initGenesis.idxOf "feemarket" < Gen.initGenesis.length ∧ Gen.initGenesis.idxOf "vauth" < Gen.initGenesis.length := by decide +kernel

end Evermint.Facts.Genesis
