/-! Executable finite maps with a default, keyed by any type with decidable equality
(pairs / triples of ids). `get` after `set` behaves like function update. -/
namespace Evermint

structure KMap (K V : Type) where
  l : List (K × V)
  d : V

namespace KMap
variable {K V : Type} [DecidableEq K]

def empty (d : V) : KMap K V := ⟨[], d⟩

def get (m : KMap K V) (k : K) : V :=
  match m.l.find? (fun p => decide (p.1 = k)) with
  | some p => p.2
  | none => m.d

def set (m : KMap K V) (k : K) (v : V) : KMap K V :=
  ⟨(k, v) :: m.l.filter (fun p => !decide (p.1 = k)), m.d⟩

def keys (m : KMap K V) : List K := m.l.map (·.1)

@[simp] theorem get_empty (d : V) (k : K) : (empty d : KMap K V).get k = d := rfl

@[simp] theorem get_set_eq (m : KMap K V) (k : K) (v : V) : (m.set k v).get k = v := by
  simp [get, set]

theorem find_filter_ne (l : List (K × V)) (k k' : K) (h : k' ≠ k) :
    List.find? (fun p => decide (p.1 = k')) (List.filter (fun p => !decide (p.1 = k)) l) =
    List.find? (fun p => decide (p.1 = k')) l := by
  induction l with
  | nil => rfl
  | cons x xs ih =>
    simp only [List.filter_cons, List.find?_cons]
    by_cases hx : x.1 = k
    · have h2 : ¬ x.1 = k' := fun e => h (e.symm.trans hx)
      simp [hx, h2, ih]
      have : ¬ k = k' := fun e => h e.symm
      simp [this]
    · simp only [hx, decide_false, Bool.not_false, if_true, List.find?_cons, ih]

@[simp] theorem get_set_ne (m : KMap K V) (k k' : K) (v : V) (h : k' ≠ k) : (m.set k v).get k' = m.get k' := by
  have hne : ¬ k = k' := fun e => h e.symm
  simp only [get, set, List.find?_cons, hne, decide_false]
  rw [find_filter_ne m.l k k' h]

theorem get_set (m : KMap K V) (k k' : K) (v : V) : (m.set k v).get k' = if k' = k then v else m.get k' := by
  by_cases h : k' = k
  · subst h; simp
  · simp [h]

end KMap
end Evermint
