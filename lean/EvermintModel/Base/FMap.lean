/-! Tiny executable finite maps with a default (absent = default), keyed by `Nat`. -/
namespace Evermint

structure FMap (V : Type) where
  l : List (Nat × V)
  d : V

namespace FMap
variable {V : Type}

def empty (d : V) : FMap V := ⟨[], d⟩

def get (m : FMap V) (k : Nat) : V :=
  match m.l.find? (fun p => p.1 == k) with
  | some p => p.2
  | none => m.d

def set (m : FMap V) (k : Nat) (v : V) : FMap V :=
  ⟨(k, v) :: m.l.filter (fun p => p.1 != k), m.d⟩

/-- remove all entries whose key satisfies `p` (they read as default afterwards) -/
def eraseIf (m : FMap V) (p : Nat → Bool) : FMap V :=
  ⟨m.l.filter (fun e => !p e.1), m.d⟩

def keys (m : FMap V) : List Nat := m.l.map (·.1)

@[simp] theorem get_set_eq (m : FMap V) (k : Nat) (v : V) : (m.set k v).get k = v := by
  simp [get, set]

@[simp] theorem get_set_ne (m : FMap V) (k k' : Nat) (v : V) (h : k' ≠ k) : (m.set k v).get k' = m.get k' := by
  have hne : (k == k') = false := by simpa using fun e => h e.symm
  simp only [get, set, List.find?_cons, hne]
  have : List.find? (fun p => p.1 == k') (List.filter (fun p => p.1 != k) m.l) = List.find? (fun p => p.1 == k') m.l := by
    induction m.l with
    | nil => rfl
    | cons x xs ih =>
      simp only [List.filter_cons, List.find?_cons]
      by_cases hx : x.1 = k
      · have h1 : (x.1 != k) = false := by simp [hx]
        have h2 : (x.1 == k') = false := by simp [hx]; exact fun e => h e.symm
        simp [h1, h2, ih]
      · have h1 : (x.1 != k) = true := by simp [hx]
        simp only [h1, if_true, List.find?_cons, ih]
  rw [this]

end FMap

/-- sorted insert into a duplicate-free sorted list (canonical set representation) -/
def setInsert (a : Nat) : List Nat → List Nat
  | [] => [a]
  | x :: xs => if a < x then a :: x :: xs else if a = x then x :: xs else x :: setInsert a xs

end Evermint
