/-
Semantics of the Go operations that the translator `factgen/translate.go` emits (core Lean only).

The translator turns a Go function of /repo (or of the pinned go-ethereum fork) into a Lean definition in
`Facts/GenCode.lean` on every check run.  Go values are mapped by their static type:

* unsigned integers of width `w`  ↦ `Nat`, every arithmetic operation wraps modulo `2^w` (`uadd w`, `usub w`, `umul w`);
* signed integers of width `w`    ↦ `Int`, wrapping two's-complement (`iwrap w`);
* `*big.Int`                      ↦ `Int` (value semantics; the translator refuses programs whose pointer aliasing
                                     would be observable);
* `sdkmath.Int`                   ↦ `Int`, constructors and arithmetic *panic* beyond 256 bits (`sdkInt`);
* `sdkmath.LegacyDec`             ↦ `Int`, the mantissa (value · 10^18);
* `error`                         ↦ `Option String` (the sentinel's name);
* a Go panic                      ↦ `none` of the enclosing `Option`.
-/
namespace Evermint.Go

def uadd (w : Nat) (a b : Nat) : Nat := (a + b) % 2^w
def usub (w : Nat) (a b : Nat) : Nat := (a + 2^w - b % 2^w) % 2^w
def umul (w : Nat) (a b : Nat) : Nat := (a * b) % 2^w
def uwrap (w : Nat) (a : Nat) : Nat := a % 2^w
/-- integer division / remainder: Go panics on a zero divisor -/
def udiv (a b : Nat) : Option Nat := if b = 0 then none else some (a / b)
def umod (a b : Nat) : Option Nat := if b = 0 then none else some (a % b)

/-- two's-complement wrap of an unbounded integer into `w` bits -/
def iwrap (w : Nat) (x : Int) : Int := (x + 2^(w-1)) % 2^w - 2^(w-1)
def iadd (w : Nat) (a b : Int) : Int := iwrap w (a + b)
def isub (w : Nat) (a b : Int) : Int := iwrap w (a - b)
def imul (w : Nat) (a b : Int) : Int := iwrap w (a * b)
def ineg (w : Nat) (a : Int) : Int := iwrap w (-a)
/-- Go's `/` and `%` on signed integers truncate toward zero -/
def idiv (w : Nat) (a b : Int) : Option Int := if b = 0 then none else some (iwrap w (Int.tdiv a b))
def imod (a b : Int) : Option Int := if b = 0 then none else some (Int.tmod a b)
/-- conversions between integer types -/
def toU (w : Nat) (x : Int) : Nat := (x % 2^w).toNat
def toI (w : Nat) (x : Int) : Int := iwrap w x

/-- `big.Int.Div` / `Mod` are Euclidean, `Quo` / `Rem` truncate; all panic on zero -/
def bigDiv (a b : Int) : Option Int := if b = 0 then none else some (a / b)
def bigMod (a b : Int) : Option Int := if b = 0 then none else some (a % b)
def bigQuo (a b : Int) : Option Int := if b = 0 then none else some (Int.tdiv a b)
def bigRem (a b : Int) : Option Int := if b = 0 then none else some (Int.tmod a b)
/-- `big.Int.Uint64`: the low 64 bits of |x| -/
def bigUint64 (x : Int) : Nat := x.natAbs % 2^64
def bigInt64 (x : Int) : Int := iwrap 64 (if x < 0 then -((x.natAbs % 2^64 : Nat) : Int) else ((x.natAbs % 2^64 : Nat) : Int))
def bigIsInt64 (x : Int) : Bool := decide (-(2^63 : Int) ≤ x ∧ x < 2^63)
def bigIsUint64 (x : Int) : Bool := decide (0 ≤ x ∧ x < 2^64)
def bigSign (x : Int) : Int := if x < 0 then -1 else if x = 0 then 0 else 1
def bigCmp (a b : Int) : Int := if a < b then -1 else if a = b then 0 else 1
/-- `BitLen(x) ≤ n` ⇔ `|x| < 2^n` -/
def bigBitLenLe (x : Int) (n : Nat) : Bool := decide (x.natAbs < 2^n)
/-- `big.Int.BitLen` -/
def bigBitLen (x : Int) : Int := if x = 0 then 0 else ((Nat.log2 x.natAbs + 1 : Nat) : Int)
def bigLsh (x : Int) (n : Nat) : Int := x * 2^n

/-- `sdkmath.NewIntFromBigInt` and every `sdkmath.Int` operation panic when the result needs more than 256 bits -/
def sdkInt (x : Int) : Option Int := if x.natAbs < 2^256 then some x else none
def sdkAdd (a b : Int) : Option Int := sdkInt (a + b)
def sdkSub (a b : Int) : Option Int := sdkInt (a - b)
def sdkMul (a b : Int) : Option Int := sdkInt (a * b)
def sdkQuo (a b : Int) : Option Int := if b = 0 then none else sdkInt (Int.tdiv a b)
/-- `sdkmath.Int.Int64` panics outside the int64 range -/
def sdkInt64 (x : Int) : Option Int := if bigIsInt64 x then some x else none
def sdkUint64 (x : Int) : Option Nat := if bigIsUint64 x then some x.toNat else none
/-- `LegacyDec.TruncateInt` (mantissa / 10^18 toward zero) -/
def decTruncate (m : Int) : Int := Int.tdiv m (10^18)

/-- slices -/
def idx {α} (xs : List α) (i : Int) : Option α := if i < 0 then none else xs[i.toNat]?

structure Coin where
  Denom : String
  Amount : Int
deriving Repr, DecidableEq, Inhabited

/-- `sdk.NewCoin` panics on a negative amount (the denomination is assumed well-formed) -/
def newCoin (denom : String) (amount : Int) : Option Coin := if amount < 0 then none else some ⟨denom, amount⟩
/-- `sdk.NewCoins(c)` of one coin: zero coins are dropped -/
def newCoins1 (c : Coin) : List Coin := if c.Amount = 0 then [] else [c]

/-- `sdk.Coins.Equal`: same length and, after sorting both by denomination, equal coin by coin -/
def coinsEqual (a b : List Coin) : Bool :=
  decide (a.length = b.length) &&
    ((a.mergeSort (fun x y => decide (x.Denom ≤ y.Denom))) == (b.mergeSort (fun x y => decide (x.Denom ≤ y.Denom))))

/-- `sdk.BigEndianToUint64` (0 for an empty slice) and `sdk.Uint64ToBigEndian` -/
def beToU64 (bz : List Nat) : Nat := if bz.isEmpty then 0 else (bz.foldl (fun acc b => acc * 256 + b % 256) 0) % 2^64
def u64ToBe (n : Nat) : List Nat := (List.range 8).map fun i => (n / 256^(7 - i)) % 256

/-- `bz[lo:hi]` of a byte slice (capacity = length for the values the translated code builds) -/
def sliceBytes (bz : List Nat) (lo hi : Int) : Option (List Nat) :=
  if 0 ≤ lo ∧ lo ≤ hi ∧ hi ≤ (bz.length : Int) then some ((bz.drop lo.toNat).take (hi - lo).toNat) else none

/-- `cpcutils.AbiEncodeBool`: one 32-byte word -/
def abiBool (b : Bool) : List Nat := List.replicate 31 0 ++ [if b then 1 else 0]

/-- an effect on something the translator does not interpret: the callee's path and its integer arguments -/
structure Effect where
  name : String
  args : List Int
deriving Repr, DecidableEq, Inhabited

end Evermint.Go
