import EvermintModel.Base.GoSem
/-! Lemmas about the Go semantics of `Base/GoSem.lean`, used by the tie theorems (`Facts/Tie*.lean`). -/
namespace Evermint.Go

theorem idx_zero_cons {α} (x : α) (xs : List α) : idx (x :: xs) 0 = some x := by
  simp [idx]

theorem idx_nil {α} (i : Int) : idx ([] : List α) i = none := by
  unfold idx; split <;> simp

theorem tdiv_nat (a b : Nat) : Int.tdiv (a : Int) (b : Int) = ((a / b : Nat) : Int) := by
  rw [Int.tdiv_eq_ediv_of_nonneg (by omega)]; norm_cast

theorem decTruncate_nat (m : Nat) : decTruncate (m : Int) = ((m / 10^18 : Nat) : Int) := by
  unfold decTruncate
  exact tdiv_nat m (10^18)

theorem sdkInt_nat (a : Nat) (ha : a < 2^256) : sdkInt (a : Int) = some (a : Int) := by
  unfold sdkInt; simp [ha]

theorem sdkInt_none (x : Int) (h : 2^256 ≤ x.natAbs) : sdkInt x = none := by
  unfold sdkInt; simp; omega

theorem sdkQuo_nat (a g : Nat) (hg : 0 < g) (ha : a < 2^256) :
    sdkQuo (a : Int) (g : Int) = some ((a / g : Nat) : Int) := by
  unfold sdkQuo
  have hne : (g : Int) ≠ 0 := by omega
  rw [if_neg hne, tdiv_nat]
  exact sdkInt_nat _ (Nat.lt_of_le_of_lt (Nat.div_le_self _ _) ha)

theorem sdkQuo_zero (a : Int) : sdkQuo a 0 = none := by simp [sdkQuo]

theorem sdkInt64_of (x : Int) (h : bigIsInt64 x = true) : sdkInt64 x = some x := by
  unfold sdkInt64; rw [if_pos h]

theorem bigDiv_nat (a b : Nat) (hb : 0 < b) : bigDiv (a : Int) (b : Int) = some ((a / b : Nat) : Int) := by
  unfold bigDiv
  have hne : (b : Int) ≠ 0 := by omega
  rw [if_neg hne]; norm_cast

theorem bigDiv_zero (a : Int) : bigDiv a 0 = none := by simp [bigDiv]

theorem usub_of_le (a b : Nat) (h : b ≤ a) (ha : a < 2^64) : usub 64 a b = a - b := by
  unfold usub; omega

theorem uadd_of_lt (a b : Nat) (h : a + b < 2^64) : uadd 64 a b = a + b := by
  unfold uadd; omega

theorem umul_of_lt (a b : Nat) (h : a * b < 2^64) : umul 64 a b = a * b := by
  unfold umul; exact Nat.mod_eq_of_lt h

theorem bigUint64_nat (a : Nat) (h : a < 2^64) : bigUint64 (a : Int) = a := by
  unfold bigUint64; simp; omega

theorem bigBitLen_le_iff (x : Int) (n : Nat) : bigBitLen x ≤ (n : Int) ↔ x.natAbs < 2^n := by
  unfold bigBitLen
  by_cases h : x = 0
  · subst h; simp; exact Nat.two_pow_pos n
  · simp [h]
    have hx : x.natAbs ≠ 0 := by omega
    constructor
    · intro hl
      have : Nat.log2 x.natAbs < n := by omega
      exact (Nat.log2_lt hx).mp this
    · intro hl
      have : Nat.log2 x.natAbs < n := (Nat.log2_lt hx).mpr hl
      omega

end Evermint.Go
