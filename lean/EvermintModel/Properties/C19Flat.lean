import EvermintModel.Properties.C19Inj
import Std.Data.String.ToNat
/-!
# C19 — from the flattened message back to the sign document

`C19_typed_injective` ends at the *flattened* message (`FlattenPayloadMessages`: the array `msgs` replaced by the
members `msg0`, `msg1`, …).  This file closes the remaining step: the flattening is injective on documents that
have no top-level member named `msg<i>` of their own (no real sign document has one: its members are
`account_number`, `chain_id`, `fee`, `memo`, `msgs`, `sequence`, `timeout_height`) and whose top-level member
names are distinct.  Without the first hypothesis it is not (`C19_flatten_collides`: a document carrying a member
`msg1` beside a one-element `msgs` flattens to the same message as the document with two messages), which is why
`flatten` refusing *existing* `msg<i>` for `i < len(msgs)` alone would not be enough.

`C19_document_injective` then joins the two theorems: equal renderings ⇒ equal chain id, the same `msgs` array
element by element, and the same value for every other top-level member.
-/
namespace Evermint.Eip712

/-! ## `msg<i>` -/

theorem s_not_nat : ("s" : String).isNat = false := by
  rw [Bool.eq_false_iff]; intro h
  rw [String.isNat_iff] at h
  have := h.2.1 's' (by simp)
  simp at this

theorem msgField_ne_msgs (i : Nat) : msgField i ≠ "msgs" := by
  intro h
  have h' : "msg" ++ toString i = "msg" ++ "s" := h
  have h2 : Nat.repr i = "s" := (String.append_right_inj _).1 h'
  have h3 := Nat.isNat_repr i
  rw [h2, s_not_nat] at h3; cases h3

theorem msgField_inj (i j : Nat) (h : msgField i = msgField j) : i = j := by
  unfold msgField at h
  exact Nat.repr_injective ((String.append_right_inj _).1 h)

/-- the members the flattening adds, from index `i` on -/
def tagged : Nat → List J → List (String × J)
  | _, [] => []
  | i, m :: rest => (msgField i, m) :: tagged (i + 1) rest

theorem tagged_length : ∀ (ms : List J) (i : Nat), (tagged i ms).length = ms.length
  | [], _ => rfl
  | _ :: r, i => by simp [tagged, tagged_length r (i + 1)]

theorem go_spec : ∀ (ms : List J) (i : Nat) (acc r : List (String × J)),
    flatten.go i ms acc = some r → r = acc ++ tagged i ms
  | [], i, acc, r, h => by
    simp only [flatten.go] at h; cases h; simp [tagged]
  | m :: rest, i, acc, r, h => by
    simp only [flatten.go] at h
    split at h
    · cases h
    · split at h
      · have := go_spec rest (i + 1) _ r h
        rw [this]; simp [tagged]
      · cases h

/-! ## lookups through append, filter and the added members -/

theorem lookup_append (a b : List (String × J)) (k : String) :
    lookup (a ++ b) k = (lookup a k).or (lookup b k) := by
  induction a with
  | nil => simp [lookup_nil]
  | cons kv r ih =>
    obtain ⟨k', v⟩ := kv
    rw [List.cons_append, lookup_cons, lookup_cons]
    by_cases hk : k' = k
    · simp [hk]
    · simp [hk, ih]

theorem lookup_filter_ne (kvs : List (String × J)) (k : String) (hk : k ≠ "msgs") :
    lookup (kvs.filter (·.1 != "msgs")) k = lookup kvs k := by
  induction kvs with
  | nil => rfl
  | cons kv r ih =>
    obtain ⟨k', v⟩ := kv
    by_cases h : k' = "msgs"
    · subst h
      have hne : "msgs" ≠ k := fun e => hk e.symm
      simp only [List.filter_cons, bne_self_eq_false, Bool.false_eq_true, if_false, ih, lookup_cons, if_neg hne]
    · have hb : (k' != "msgs") = true := by simpa using h
      simp only [List.filter_cons, hb, if_true, lookup_cons, ih]

theorem lookup_none_of_not_mem : ∀ (kvs : List (String × J)) (k : String), (∀ v, (k, v) ∉ kvs) → lookup kvs k = none
  | [], _, _ => rfl
  | (k', v') :: r, k, h => by
    rw [lookup_cons]
    have hne : k' ≠ k := by intro e; subst e; exact h v' (List.mem_cons_self ..)
    rw [if_neg hne]
    exact lookup_none_of_not_mem r k (fun v hm => h v (List.mem_cons_of_mem _ hm))

theorem not_mem_of_lookup_none : ∀ (kvs : List (String × J)) (k : String), lookup kvs k = none → ∀ v, (k, v) ∉ kvs
  | [], _, _, _, hm => by cases hm
  | (k', v') :: r, k, h, v, hm => by
    rw [lookup_cons] at h
    by_cases hk : k' = k
    · rw [if_pos hk] at h; cases h
    · rw [if_neg hk] at h
      rcases List.mem_cons.1 hm with heq | hmem
      · cases heq; exact hk rfl
      · exact not_mem_of_lookup_none r k h v hmem

theorem lookup_tagged : ∀ (ms : List J) (i j : Nat), lookup (tagged i ms) (msgField (i + j)) = ms[j]?
  | [], _, _ => by simp [tagged, lookup_nil]
  | m :: rest, i, 0 => by simp [tagged, lookup_cons]
  | m :: rest, i, j + 1 => by
    simp only [tagged, lookup_cons]
    have hne : msgField i ≠ msgField (i + (j + 1)) := by
      intro e; have := msgField_inj _ _ e; omega
    rw [if_neg hne]
    have := lookup_tagged rest (i + 1) j
    rw [show i + 1 + j = i + (j + 1) by omega] at this
    simpa using this

theorem lookup_tagged_other : ∀ (ms : List J) (i : Nat) (k : String), (∀ j, k ≠ msgField j) → lookup (tagged i ms) k = none
  | [], _, _, _ => rfl
  | m :: rest, i, k, h => by
    simp only [tagged, lookup_cons]
    rw [if_neg (fun e => h i e.symm)]
    exact lookup_tagged_other rest (i + 1) k h

theorem tagged_filter : ∀ (ms : List J) (i : Nat), (tagged i ms).filter (·.1 != "msgs") = tagged i ms
  | [], _ => rfl
  | m :: rest, i => by
    simp only [tagged]
    have hb : (msgField i != "msgs") = true := by simpa using msgField_ne_msgs i
    simp only [List.filter_cons, hb, if_true, tagged_filter rest (i + 1)]

theorem mem_tagged : ∀ (ms : List J) (i j : Nat) (x : J), ms[j]? = some x → (msgField (i + j), x) ∈ tagged i ms
  | [], _, _, _, h => by simp at h
  | m :: rest, i, 0, x, h => by simp at h; subst h; simp [tagged]
  | m :: rest, i, j + 1, x, h => by
    simp only [tagged]
    have h' : rest[j]? = some x := by simpa using h
    have := mem_tagged rest (i + 1) j x h'
    rw [show i + 1 + j = i + (j + 1) by omega] at this
    exact List.mem_cons_of_mem _ this

/-! ## what `flatten` returns -/

/-- no top-level member is called `msg<i>` -/
def NoMsgKeys (kvs : List (String × J)) : Prop := ∀ i, lookup kvs (msgField i) = none

theorem flatten_some (doc : J) (m : List (String × J)) (n : Nat) (h : flatten doc = some (m, n)) :
    ∃ kvs msgs, doc = .obj kvs ∧ lookup kvs "msgs" = some (.arr msgs) ∧
      m = kvs.filter (·.1 != "msgs") ++ tagged 0 msgs ∧ n = msgs.length := by
  unfold flatten at h
  split at h
  · rename_i kvs
    split at h
    · rename_i msgs hl
      split at h
      · rename_i acc hg
        have hs := go_spec msgs 0 kvs acc hg
        simp only [Option.some.injEq, Prod.mk.injEq] at h
        refine ⟨kvs, msgs, rfl, hl, ?_, h.2.symm⟩
        rw [← h.1, hs, List.filter_append, tagged_filter]
      · cases h
    · cases h
  · cases h

theorem sameList_of_index : ∀ (xs ys : List J), xs.length = ys.length →
    (∀ (j : Nat) x y, xs[j]? = some x → ys[j]? = some y → Same x y) → SameList xs ys
  | [], [], _, _ => by simp [SameList]
  | [], _ :: _, h, _ => by simp at h
  | _ :: _, [], h, _ => by simp at h
  | x :: xs, y :: ys, hl, h => by
    simp only [SameList]
    refine ⟨h 0 x y (by simp) (by simp), sameList_of_index xs ys (by simpa using hl) ?_⟩
    intro j a b ha hb
    exact h (j + 1) a b (by simpa using ha) (by simpa using hb)

/-- **The flattening is injective** on documents with distinct top-level names, none of them `msg<i>`. -/
theorem C19_flatten_injective (kvs1 kvs2 : List (String × J)) (msgs1 msgs2 : List J)
    (nd1 : (kvs1.map (·.1)).Nodup)
    (nm1 : NoMsgKeys kvs1) (nm2 : NoMsgKeys kvs2)
    (hs : Same (.obj (kvs1.filter (·.1 != "msgs") ++ tagged 0 msgs1))
               (.obj (kvs2.filter (·.1 != "msgs") ++ tagged 0 msgs2))) :
    SameList msgs1 msgs2 ∧
      ∀ k v, k ≠ "msgs" → lookup kvs1 k = some v → ∃ y, lookup kvs2 k = some y ∧ Same v y := by
  simp only [Same] at hs
  obtain ⟨hlen, hsf⟩ := hs
  have hlook := sameFields_lookup _ _ hsf
  -- members other than `msgs`
  have top : ∀ k v, k ≠ "msgs" → lookup kvs1 k = some v → ∃ y, lookup kvs2 k = some y ∧ Same v y := by
    intro k v hk hl
    have hmem : (k, v) ∈ kvs1 := lookup_mem _ _ _ hl
    have hnot : ∀ j, k ≠ msgField j := by
      intro j e; subst e; rw [nm1 j] at hl; cases hl
    have hm1 : (k, v) ∈ kvs1.filter (·.1 != "msgs") ++ tagged 0 msgs1 :=
      List.mem_append_left _ (List.mem_filter.2 ⟨hmem, by simpa using hk⟩)
    obtain ⟨y, hy, hsame⟩ := hlook k v hm1
    rw [lookup_append, lookup_filter_ne _ _ hk, lookup_tagged_other _ _ _ hnot] at hy
    refine ⟨y, ?_, hsame⟩
    cases hq : lookup kvs2 k with
    | none => simp [hq] at hy
    | some z => simpa [hq] using hy
  -- the messages, index by index
  have idx : ∀ (j : Nat) x, msgs1[j]? = some x → ∃ y, msgs2[j]? = some y ∧ Same x y := by
    intro j x hx
    have hm : (msgField (0 + j), x) ∈ kvs1.filter (·.1 != "msgs") ++ tagged 0 msgs1 :=
      List.mem_append_right _ (mem_tagged msgs1 0 j x hx)
    obtain ⟨y, hy, hsame⟩ := hlook _ _ hm
    rw [lookup_append, lookup_filter_ne _ _ (msgField_ne_msgs _), nm2 (0 + j), lookup_tagged] at hy
    exact ⟨y, by simpa using hy, hsame⟩
  have le12 : msgs1.length ≤ msgs2.length := by
    cases hn : msgs1.length with
    | zero => exact Nat.zero_le _
    | succ p =>
      have hp : p < msgs1.length := by omega
      obtain ⟨y, hy, _⟩ := idx p msgs1[p] (List.getElem?_eq_getElem hp)
      have := (List.getElem?_eq_some_iff.1 hy).1
      omega
  -- the other members of the first document are among those of the second, and they are distinct
  have hsub : (kvs1.filter (·.1 != "msgs")).map (·.1) ⊆ (kvs2.filter (·.1 != "msgs")).map (·.1) := by
    intro k hk
    obtain ⟨⟨k', v⟩, hmem, rfl⟩ := List.mem_map.1 hk
    have hf := List.mem_filter.1 hmem
    have hne : k' ≠ "msgs" := by simpa using hf.2
    have hl : lookup kvs1 k' = some v := lookup_of_mem_nodup _ _ _ nd1 hf.1
    obtain ⟨y, hy, _⟩ := top k' v hne hl
    exact List.mem_map.2 ⟨(k', y), List.mem_filter.2 ⟨lookup_mem _ _ _ hy, by simpa using hne⟩, rfl⟩
  have hnd : ((kvs1.filter (·.1 != "msgs")).map (·.1)).Nodup :=
    List.Nodup.sublist (List.Sublist.map _ List.filter_sublist) nd1
  have hle := nodup_subset_length _ _ hnd hsub
  simp only [List.length_append, List.length_map, tagged_length] at hlen hle
  have hn : msgs1.length = msgs2.length := by omega
  refine ⟨sameList_of_index _ _ hn ?_, top⟩
  intro j x y hx hy
  obtain ⟨y', hy', hsame⟩ := idx j x hx
  rw [hy] at hy'; cases hy'; exact hsame

/-! ## the hypothesis is needed -/

/-- A document with a member `msg1` of its own and one message flattens to the same message as the document with
two messages: the refusal of *clashing* `msg<i>` in `FlattenPayloadMessages` covers `i < len(msgs)` only. -/
theorem C19_flatten_collides :
    flatten (.obj [("msgs", .arr [.obj [("a", .num 1)]]), ("msg1", .obj [("a", .num 2)])]) =
      some ([("msg1", .obj [("a", .num 2)]), ("msg0", .obj [("a", .num 1)])], 1) ∧
    flatten (.obj [("msgs", .arr [.obj [("a", .num 1)], .obj [("a", .num 2)]])]) =
      some ([("msg0", .obj [("a", .num 1)]), ("msg1", .obj [("a", .num 2)])], 2) := by
  constructor <;> rfl

/-! ## executable form of the hypotheses, and the joined theorem -/

/-- a top-level name that cannot be `msg<i>`: it is `msgs`, or does not start with `msg` -/
def topKeyOK (k : String) : Bool := k == "msgs" || k.toList.take 3 != ['m', 's', 'g']

theorem topKeyOK_msgField (i : Nat) : topKeyOK (msgField i) = false := by
  unfold topKeyOK
  have h1 : (msgField i == "msgs") = false := by simpa using msgField_ne_msgs i
  have h2 : (msgField i).toList.take 3 = ['m', 's', 'g'] := by
    unfold msgField
    rw [String.toList_append]
    have : ("msg" : String).toList = ['m', 's', 'g'] := by decide
    rw [this]; simp
  rw [h1, h2]; simp

def topOK (doc : J) : Bool :=
  match doc with
  | .obj kvs => decide ((kvs.map (·.1)).Nodup) && kvs.all (fun kv => topKeyOK kv.1)
  | _ => false

theorem topOK_sound (kvs : List (String × J)) (h : topOK (.obj kvs) = true) :
    (kvs.map (·.1)).Nodup ∧ NoMsgKeys kvs := by
  simp only [topOK, Bool.and_eq_true, decide_eq_true_eq] at h
  refine ⟨h.1, fun i => lookup_none_of_not_mem _ _ (fun v hm => ?_)⟩
  have := List.all_eq_true.1 h.2 _ hm
  rw [topKeyOK_msgField] at this; cases this

/-- **C19 (one signature, one transaction), down to the sign document.**  If the EIP-712 renderings of two sign
documents coincide (domain separator and message hash, ideal hash) then the chain ids are equal, the `msgs`
arrays are the same element by element, and every other top-level member (account number, sequence, fee, memo,
timeout height, chain id string) of the first has the same value in the second. -/
theorem C19_document_injective (c1 c2 : Nat) (kvs1 kvs2 : List (String × J)) (msgs1 msgs2 : List J) (d m : Enc)
    (hm1 : lookup kvs1 "msgs" = some (.arr msgs1)) (hm2 : lookup kvs2 "msgs" = some (.arr msgs2))
    (h1 : typedEnc c1 (.obj kvs1) = some (d, m)) (h2 : typedEnc c2 (.obj kvs2) = some (d, m))
    (ok1 : docOK c1 (.obj kvs1) = true) (ok2 : docOK c2 (.obj kvs2) = true)
    (t1 : topOK (.obj kvs1) = true) (t2 : topOK (.obj kvs2) = true) :
    c1 = c2 ∧ SameList msgs1 msgs2 ∧
      ∀ k v, k ≠ "msgs" → lookup kvs1 k = some v → ∃ y, lookup kvs2 k = some y ∧ Same v y := by
  cases hw1 : wrap (.obj kvs1) with
  | none => simp [docOK, hw1] at ok1
  | some td1 =>
    cases hw2 : wrap (.obj kvs2) with
    | none => simp [docOK, hw2] at ok2
    | some td2 =>
      obtain ⟨hc, hsame⟩ := C19_typed_injective c1 c2 _ _ td1 td2 d m hw1 hw2 h1 h2 ok1 ok2
      have msg_of : ∀ (kvs : List (String × J)) (msgs : List J) (td : Typed),
          lookup kvs "msgs" = some (.arr msgs) → wrap (.obj kvs) = some td →
          td.message = kvs.filter (·.1 != "msgs") ++ tagged 0 msgs := by
        intro kvs msgs td hl hw
        unfold wrap at hw
        cases hf : flatten (.obj kvs) with
        | none => simp [hf] at hw
        | some p =>
          obtain ⟨mm, n⟩ := p
          obtain ⟨kvs', msgs', hd, hl', hmm, _⟩ := flatten_some _ _ _ hf
          cases hd
          rw [hl] at hl'; cases hl'
          simp only [hf] at hw
          split at hw
          · cases hw
          · cases hw; exact hmm
      rw [msg_of kvs1 msgs1 td1 hm1 hw1, msg_of kvs2 msgs2 td2 hm2 hw2] at hsame
      obtain ⟨nd1, nm1⟩ := topOK_sound kvs1 t1
      obtain ⟨_, nm2⟩ := topOK_sound kvs2 t2
      exact ⟨hc, C19_flatten_injective kvs1 kvs2 msgs1 msgs2 nd1 nm1 nm2 hsame⟩

/-- the hypotheses are met by a real-shaped sign document (two messages) -/
example : topOK sampleDoc = true ∧ docOK 9000 sampleDoc = true ∧ (typedEnc 9000 sampleDoc).isSome = true := by
  refine ⟨?_, ?_, ?_⟩ <;> decide +kernel

/-- everything asked of one document, computed (what the driver evaluates on every real sign document) -/
def docOKFull (chainId : Nat) (doc : J) : Bool := docOK chainId doc && topOK doc

end Evermint.Eip712
