import EvermintModel.Model.FeeMarket
/-!
# C09 — base fee follows EIP-1559 and bounds every executed transaction's price

Property theorems only (helper lemmas live in this file's `private` section because they are
three-liners; nothing here weakens a statement silently).  Every theorem quantifies over
*all* base fees, gas figures, max-gas settings and minimum prices — no bounds.
-/
namespace Evermint.FeeMarket

open Evermint.FeeMarket

/-! ## EIP-1559 laws of the geth function (for every positive target) -/

/-- unchanged when usage equals the gas target -/
theorem C09_unchanged_at_target (c : Consts) (b L : Nat) :
    gethCalc c b L (L / c.elasticity) = some b := by
  simp [gethCalc]

/-- above target: moved up by `b·(used−target)/target/denom`, at least 1 -/
theorem C09_increase_exact (c : Consts) (b L used : Nat)
    (hT : 0 < L / c.elasticity) (h : used > L / c.elasticity) :
    gethCalc c b L used =
      some (b + max ((used - L / c.elasticity) * b / (L / c.elasticity) / c.changeDenom) 1) := by
  have h1 : used ≠ L / c.elasticity := by omega
  have h2 : L / c.elasticity ≠ 0 := by omega
  simp [gethCalc, h1, h2, h]

/-- below target: moved down by `b·(target−used)/target/denom`, floored at 0 -/
theorem C09_decrease_exact (c : Consts) (b L used : Nat)
    (hT : 0 < L / c.elasticity) (h : used < L / c.elasticity) :
    gethCalc c b L used =
      some (b - (L / c.elasticity - used) * b / (L / c.elasticity) / c.changeDenom) := by
  have h1 : used ≠ L / c.elasticity := by omega
  have h2 : L / c.elasticity ≠ 0 := by omega
  have h3 : ¬ used > L / c.elasticity := by omega
  simp [gethCalc, h1, h2, h3]

/-- strictly increases above target (the "at least 1" clause) -/
theorem C09_increase_strict (c : Consts) (b L used r : Nat)
    (hT : 0 < L / c.elasticity) (h : used > L / c.elasticity)
    (hr : gethCalc c b L used = some r) : r > b := by
  rw [C09_increase_exact c b L used hT h] at hr
  have := Nat.le_max_right ((used - L / c.elasticity) * b / (L / c.elasticity) / c.changeDenom) 1
  injection hr with hr
  generalize max ((used - L / c.elasticity) * b / (L / c.elasticity) / c.changeDenom) 1 = m at *
  omega

/-- never increases below target, never negative (ℕ) -/
theorem C09_decrease_le (c : Consts) (b L used r : Nat)
    (hT : 0 < L / c.elasticity) (h : used < L / c.elasticity)
    (hr : gethCalc c b L used = some r) : r ≤ b := by
  rw [C09_decrease_exact c b L used hT h] at hr
  injection hr with hr
  generalize (L / c.elasticity - used) * b / (L / c.elasticity) / c.changeDenom = d at *
  omega

/-- the result is a function of the three inputs only; the only failure is a zero target -/
theorem C09_geth_total (c : Consts) (b L used : Nat) (hT : 0 < L / c.elasticity) :
    ∃ r, gethCalc c b L used = some r := by
  unfold gethCalc
  have h2 : L / c.elasticity ≠ 0 := by omega
  simp only [h2, if_false]
  split
  · exact ⟨_, rfl⟩
  · split <;> exact ⟨_, rfl⟩

/-! ## The keeper function -/

/-- never below the integer part of the configured minimum gas price -/
theorem C09_ge_floor_min (c : Consts) (b : Nat) (mg : Option Int) (cons minRaw r : Nat)
    (h : calcBaseFee c b mg cons minRaw = .ok r) : r ≥ minRaw / 10^18 := by
  unfold calcBaseFee at h
  simp only at h
  split at h
  · cases h
  · rename_i n _
    split at h
    · injection h with h; subst h; exact Nat.le_max_right _ _
    · cases h

/-- **No division by zero (fixed code).**  For every consensus `MaxGas` (any integer, or no block
params at all), every base fee and every gas figure. -/
theorem C09_total_no_divzero (c : Consts) (b : Nat) (mg : Option Int) (cons minRaw : Nat) :
    calcBaseFee c b mg cons minRaw ≠ .panicDivZero := by
  unfold calcBaseFee
  simp only
  by_cases hz : gasLimitOf mg / c.elasticity = 0
  · simp only [hz, if_true]
    split <;> simp
  · simp only [hz, if_false]
    obtain ⟨r, hr⟩ := C09_geth_total c b (gasLimitOf mg) (gasUsedOf mg cons) (Nat.pos_of_ne_zero hz)
    rw [hr]; simp only; split <;> simp

/-- a minimum gas price that can be stored at all (a `LegacyDec` mantissa has at most 315 bits)
has an integer part within the 256-bit range -/
theorem floorMin_fits (minRaw : Nat) (h : minRaw < 2^315) : minRaw / 10^18 ≤ maxInt256 := by
  unfold maxInt256; omega

/-- **Totality (fixed code).**  For *every* base fee (0 … 2^256 and beyond), every gas figure,
every `MaxGas` including −1, 0, 1 and absent block params, and every storable minimum gas
price, `CalculateBaseFee` returns a value. -/
theorem C09_total (c : Consts) (b : Nat) (mg : Option Int) (cons minRaw : Nat)
    (hmin : minRaw < 2^315) :
    ∃ r, calcBaseFee c b mg cons minRaw = .ok r := by
  have hfit := floorMin_fits minRaw hmin
  have hnd := C09_total_no_divzero c b mg cons minRaw
  unfold calcBaseFee at *
  simp only at *
  split
  · rename_i h; rw [h] at hnd; exact absurd rfl hnd
  · rename_i n _
    have : max (min n maxInt256) (minRaw / 10 ^ 18) ≤ maxInt256 :=
      Nat.max_le.mpr ⟨Nat.min_le_right _ _, hfit⟩
    simp only [this, if_true]
    exact ⟨_, rfl⟩

/-- and the value is the (saturated) EIP-1559 value, lower-bounded by ⌊min⌋ — exact, whenever the
gas target is positive -/
theorem C09_keeper_exact (c : Consts) (b : Nat) (mg : Option Int) (cons minRaw n : Nat)
    (hmin : minRaw < 2^315) (hT : 0 < gasLimitOf mg / c.elasticity)
    (hg : gethCalc c b (gasLimitOf mg) (gasUsedOf mg cons) = some n) :
    calcBaseFee c b mg cons minRaw = .ok (max (min n maxInt256) (minRaw / 10^18)) := by
  have hfit := floorMin_fits minRaw hmin
  unfold calcBaseFee
  have hz : gasLimitOf mg / c.elasticity ≠ 0 := by omega
  simp only [hz, if_false, hg]
  have : max (min n maxInt256) (minRaw / 10 ^ 18) ≤ maxInt256 :=
    Nat.max_le.mpr ⟨Nat.min_le_right _ _, hfit⟩
  simp only [this, if_true]

/-- zero gas target (MaxGas = 1): the base fee is kept -/
theorem C09_zero_target_keeps (c : Consts) (b : Nat) (mg : Option Int) (cons minRaw : Nat)
    (hmin : minRaw < 2^315) (hb : b ≤ maxInt256) (hT : gasLimitOf mg / c.elasticity = 0) :
    calcBaseFee c b mg cons minRaw = .ok (max b (minRaw / 10^18)) := by
  have hfit := floorMin_fits minRaw hmin
  unfold calcBaseFee
  simp only [hT, if_true]
  have h1 : min b maxInt256 = b := Nat.min_eq_left hb
  have : max b (minRaw / 10 ^ 18) ≤ maxInt256 := Nat.max_le.mpr ⟨hb, hfit⟩
  simp only [h1, this, if_true]

/-- the block gas meter guarantees `used ≤ limit` for a limited meter (GasConsumedToLimit) -/
theorem gasUsed_le_limit_of_limited (m : Int) (cons : Nat) (hm : 0 < m) (hfit : m.toNat < 2^64) :
    gasUsedOf (some m) cons ≤ gasLimitOf (some m) := by
  simp [gasUsedOf, gasLimitOf, hm, Nat.mod_eq_of_lt hfit]
  exact Nat.min_le_right _ _

/-! ## Regression record: the pinned commit (before the `fix:`) violated totality -/

theorem C09_total_fails_before_fix_maxgas0 :
    calcBaseFeeOld londonConsts 1000000000 (some 0) 21000 0 = .panicDivZero := by decide

theorem C09_total_fails_before_fix_maxgas1 :
    calcBaseFeeOld londonConsts 1000000000 (some 1) 1 0 = .panicDivZero := by decide

/-- and the fixed function returns the unchanged base fee on the same inputs -/
theorem C09_fixed_on_witnesses :
    calcBaseFee londonConsts 1000000000 (some 1) 1 0 = .ok 1000000000 ∧
    (∃ r, calcBaseFee londonConsts 1000000000 (some 0) 21000 0 = .ok r) := by
  constructor
  · decide
  · exact C09_total londonConsts 1000000000 (some 0) 21000 0 (by omega)

/-! ## Admission: no executed transaction is priced below max(baseFee, ⌊min⌋) -/

/-- effective gas price as computed both by the ante fee checker (`EthTxEffectiveGasPrice`)
and by geth's `AsMessage` -/
def effPrice (dynamic : Bool) (gasPrice tip cap base : Nat) : Nat :=
  if dynamic then min (tip + base) cap else gasPrice

/-- `getMinGasPricesAllowed` in deliver mode (validator-local min price is consulted only in check) -/
def minAllowedDeliver (base minRaw : Nat) : Nat := max base (minRaw / 10^18)

/-- `getTxPriority`'s admission test on `fee = effPrice · gas` -/
def admitted (fee gas minAllowed : Nat) : Bool := decide (fee / gas ≥ minAllowed)

theorem C09_admission (dynamic : Bool) (gasPrice tip cap base gas minRaw : Nat) (hg : 0 < gas)
    (h : admitted (effPrice dynamic gasPrice tip cap base * gas) gas (minAllowedDeliver base minRaw) = true) :
    effPrice dynamic gasPrice tip cap base ≥ base ∧
    effPrice dynamic gasPrice tip cap base ≥ minRaw / 10^18 := by
  unfold admitted at h
  simp only [decide_eq_true_eq] at h
  rw [Nat.mul_div_cancel _ hg] at h
  unfold minAllowedDeliver at h
  exact ⟨Nat.le_trans (Nat.le_max_left _ _) h, Nat.le_trans (Nat.le_max_right _ _) h⟩

/-- and then the state transition's own London check (`feeCap ≥ baseFee`) cannot disagree -/
theorem C09_admission_implies_precheck (tip cap base : Nat)
    (h : effPrice true 0 tip cap base ≥ base) : cap ≥ base := by
  unfold effPrice at h; simp only [if_true] at h
  exact Nat.le_trans h (Nat.min_le_right _ _)

/-! ## Non-vacuity -/
example : calcBaseFee londonConsts 1000000000 (some 100) 100 0 = .ok 1125000000 := by decide +kernel
example : calcBaseFee londonConsts 1000000000 (some 100) 25 0 = .ok 937500000 := by decide +kernel
example : calcBaseFee londonConsts 1000000000 (some 100) 50 (1500000000 * 10^18) = .ok 1500000000 := by decide +kernel
example : calcBaseFee londonConsts (2^256 - 1) (some 100) 100 0 = .ok (2^256 - 1) := by decide +kernel
/-- before the saturation fix the same input panicked -/
example : calcBaseFeeOld londonConsts (2^256 - 1) (some 100) 100 0 = .panicOverflow := by decide +kernel
example : admitted (effPrice true 0 5 100 10 * 21000) 21000 (minAllowedDeliver 10 0) = true := by decide +kernel

end Evermint.FeeMarket
