import EvermintModel.Model.StateDB
import EvermintModel.Proofs.World
/-!
# C15 — EVM execution cannot destroy protected accounts or spend vesting-locked coins

Theorems over the `World` / StateDB model that E-statedb ties to `/repo/x/evm/vm/state_db.go`
(`DestroyAccount`, `CommitMultiStore`), `x/evm/utils/validation.go` (destroy guard, evaluated at the
**block time** `w.now`) and `x/evm/keeper/keeper.go IsEmptyAccount`.
-/
namespace Evermint.World
open Evermint

/-- a module account, or a vesting account whose vesting period has not ended as of the block time -/
def isProtected (w : World) (a : Addr) : Prop :=
  match w.acc.get a with
  | some { kind := .module, .. } => True
  | some { kind := .vesting endT _, .. } => endT > w.now
  | _ => False

theorem protected_not_destroyable (w : World) (a : Addr) (h : w.isProtected a) : w.destroyable a = false := by
  unfold isProtected at h
  unfold destroyable
  cases hg : w.acc.get a with
  | none => rw [hg] at h; exact absurd h id
  | some ac =>
    rw [hg] at h
    obtain ⟨k, sq, nm⟩ := ac
    cases k with
    | base => exact absurd h id
    | module => rfl
    | vesting e l => simp only [] at h ⊢; simp [h]

/-- shape of a successful `DestroyAccount` -/
theorem destroyAccount_ok {w w' : World} {a : Addr} (h : w.destroyAccount a = .ok w') :
    w.destroyable a = true ∧ ∃ w2, ({ w with acc := w.acc.set a none } : World).burnAll a = .ok w2 ∧
      w' = { w2 with codeHash := w2.codeHash.set a 0, storage := w2.storage.eraseIf (fun k => k / 4096 == a) } := by
  unfold destroyAccount at h
  cases hd : w.destroyable a with
  | false => simp [hd] at h
  | true =>
    simp only [hd, Bool.not_true, Bool.false_eq_true, if_false, bind, Except.bind] at h
    cases hb : ({ w with acc := w.acc.set a none } : World).burnAll a with
    | error e => rw [hb] at h; cases h
    | ok w2 =>
      rw [hb] at h
      simp only [] at h
      injection h with h
      exact ⟨rfl, w2, rfl, h.symm⟩

/-- `burnAll` touches balances, supply and the event counter only -/
theorem burnAll_keeps {w w2 : World} {a : Addr} (h : w.burnAll a = .ok w2) :
    w2.acc = w.acc ∧ w2.now = w.now ∧ w2.codeHash = w.codeHash ∧ w2.storage = w.storage ∧ w2.evmMod = w.evmMod := by
  unfold burnAll at h
  simp only [] at h
  split at h
  · injection h with h; subst h; exact ⟨rfl, rfl, rfl, rfl, rfl⟩
  · split at h
    · cases h
    · injection h with h
      subst h
      have key : ∀ (ds : List Nat) (f : World → Nat → World) (w0 : World),
          (∀ x d, (f x d).acc = x.acc ∧ (f x d).now = x.now ∧ (f x d).codeHash = x.codeHash ∧ (f x d).storage = x.storage ∧ (f x d).evmMod = x.evmMod) →
          (ds.foldl f w0).acc = w0.acc ∧ (ds.foldl f w0).now = w0.now ∧ (ds.foldl f w0).codeHash = w0.codeHash ∧
          (ds.foldl f w0).storage = w0.storage ∧ (ds.foldl f w0).evmMod = w0.evmMod := by
        intro ds f
        induction ds with
        | nil => intro w0 _; exact ⟨rfl, rfl, rfl, rfl, rfl⟩
        | cons d ds ih =>
          intro w0 hf
          simp only [List.foldl_cons]
          obtain ⟨a1, a2, a3, a4, a5⟩ := ih (f w0 d) hf
          obtain ⟨b1, b2, b3, b4, b5⟩ := hf w0 d
          exact ⟨a1.trans b1, a2.trans b2, a3.trans b3, a4.trans b4, a5.trans b5⟩
      simp only []
      obtain ⟨a1, a2, a3, a4, a5⟩ := key _ (fun (w' : World) d =>
          let n := w.balOf a d
          let w' := w'.setBal w'.evmMod d (w'.balOf w'.evmMod d - n)
          { w' with supply := w'.supply.set d (w'.supply.get d - n) })
        ({ (List.foldl (fun (w : World) d =>
            let n := w.balOf a d
            let w := w.setBal a d 0
            w.setBal w.evmMod d (w.balOf w.evmMod d + n)) w ((List.range nDenoms).filter (fun d => w.balOf a d > 0))) with
            events := _ }) (fun x d => ⟨rfl, rfl, rfl, rfl, rfl⟩)
      obtain ⟨c1, c2, c3, c4, c5⟩ := key ((List.range nDenoms).filter (fun d => w.balOf a d > 0)) (fun (w : World) d =>
            let n := w.balOf a d
            let w := w.setBal a d 0
            w.setBal w.evmMod d (w.balOf w.evmMod d + n)) w (fun x d => ⟨rfl, rfl, rfl, rfl, rfl⟩)
      exact ⟨a1.trans c1, a2.trans c2, a3.trans c3, a4.trans c4, a5.trans c5⟩

/-- **C15 (destroy guard).** `DestroyAccount` succeeds only for an account that is neither a module
account nor a vesting account still vesting at the block time; otherwise it panics (tx aborts). -/
theorem C15_destroy_needs_unprotected (w w' : World) (a : Addr) (h : w.destroyAccount a = .ok w') : ¬ w.isProtected a := by
  intro hp
  have := (destroyAccount_ok h).1
  rw [protected_not_destroyable w a hp] at this
  cases this

/-- **C15 (deleted accounts are removed completely: record, code hash, all storage).** -/
theorem C15_delete_complete (w w' : World) (a : Addr) (h : w.destroyAccount a = .ok w') :
    w'.acc.get a = none ∧ w'.codeHash.get a = 0 ∧ w'.hasStorage a = false := by
  obtain ⟨_, w2, hb, he⟩ := destroyAccount_ok h
  obtain ⟨k1, _, _, _, _⟩ := burnAll_keeps hb
  subst he
  refine ⟨?_, by simp, ?_⟩
  · show w2.acc.get a = none
    rw [k1]; simp
  · unfold hasStorage storageKeysOf
    simp only [FMap.eraseIf, Bool.not_eq_eq_eq_not, Bool.not_false, List.isEmpty_iff, List.map_eq_nil_iff, List.filter_eq_nil_iff]
    intro e he
    simp only [List.mem_filter, Bool.not_eq_true'] at he
    simp [he.2]

/-- other accounts keep their record, and the block time does not move -/
theorem destroyAccount_others (w w' : World) (a b : Addr) (h : w.destroyAccount a = .ok w') (hne : b ≠ a) :
    w'.acc.get b = w.acc.get b ∧ w'.now = w.now := by
  obtain ⟨_, w2, hb, he⟩ := destroyAccount_ok h
  obtain ⟨k1, k2, _, _, _⟩ := burnAll_keeps hb
  subst he
  refine ⟨?_, k2⟩
  show w2.acc.get b = _
  rw [k1]; exact FMap.get_set_ne _ _ _ _ hne

theorem destroyAccount_now (w w' : World) (a : Addr) (h : w.destroyAccount a = .ok w') : w'.now = w.now := by
  obtain ⟨_, w2, hb, he⟩ := destroyAccount_ok h
  obtain ⟨_, k2, _, _, _⟩ := burnAll_keeps hb
  subst he; exact k2

theorem isProtected_congr (w w' : World) (a : Addr) (h1 : w'.acc.get a = w.acc.get a) (h2 : w'.now = w.now) :
    w'.isProtected a ↔ w.isProtected a := by
  unfold isProtected; rw [h1, h2]

/-- **C15 (commit never deletes, replaces or re-types a protected account).** Whatever was touched or
self-destructed, a successful `CommitMultiStore` leaves every module account and every vesting account
still vesting at the block time exactly as it was; if the loop would have to destroy one, the commit
fails as a whole. -/
theorem C15_commit_keeps_protected (de : Bool) (sd : List Addr) :
    ∀ (as : List Addr) (w w' : World), commitLoop de sd as w = .ok w' →
      ∀ a, w.isProtected a → w'.acc.get a = w.acc.get a ∧ w'.isProtected a
  | [], w, w', h, a, hp => by
    unfold commitLoop at h; injection h with h; subst h; exact ⟨rfl, hp⟩
  | x :: as, w, w', h, a, hp => by
    unfold commitLoop at h
    split at h
    · simp only [bind, Except.bind] at h
      cases hd : w.destroyAccount x with
      | error e => rw [hd] at h; cases h
      | ok w1 =>
        rw [hd] at h
        simp only [] at h
        have hne : a ≠ x := by
          intro e; subst e
          exact C15_destroy_needs_unprotected w w1 a hd hp
        obtain ⟨o1, o2⟩ := destroyAccount_others w w1 x a hd hne
        have hp1 : w1.isProtected a := (isProtected_congr w w1 a o1 o2).2 hp
        obtain ⟨r1, r2⟩ := C15_commit_keeps_protected de sd as w1 w' h a hp1
        exact ⟨r1.trans o1, r2⟩
    · exact C15_commit_keeps_protected de sd as w w' h a hp

/-- **C15 (no silent deletion).** An account that exists before the commit and is gone after it was on
the touched list and was either self-destructed or — with `deleteEmpty` — empty (no code, zero in every
denomination, nonce 0, no storage) at the moment the loop reached it. -/
theorem C15_no_silent_delete (de : Bool) (sd : List Addr) :
    ∀ (as : List Addr) (w w' : World), commitLoop de sd as w = .ok w' →
      ∀ a, (w.acc.get a).isSome → w'.acc.get a = none → a ∈ as ∧ (sd.contains a = true ∨ de = true)
  | [], w, w', h, a, h1, h2 => by
    unfold commitLoop at h; injection h with h; subst h
    rw [h2] at h1; cases h1
  | x :: as, w, w', h, a, h1, h2 => by
    unfold commitLoop at h
    split at h
    · rename_i hc
      simp only [bind, Except.bind] at h
      cases hd : w.destroyAccount x with
      | error e => rw [hd] at h; cases h
      | ok w1 =>
        rw [hd] at h
        simp only [] at h
        by_cases hax : a = x
        · subst hax
          refine ⟨List.mem_cons_self .., ?_⟩
          simp only [Bool.or_eq_true, Bool.and_eq_true] at hc
          rcases hc with hc | hc
          · exact Or.inl hc
          · exact Or.inr hc.1
        · obtain ⟨o1, _⟩ := destroyAccount_others w w1 x a hd hax
          have := C15_no_silent_delete de sd as w1 w' h a (by rw [o1]; exact h1) h2
          exact ⟨List.mem_cons_of_mem _ this.1, this.2⟩
    · have := C15_no_silent_delete de sd as w w' h a h1 h2
      exact ⟨List.mem_cons_of_mem _ this.1, this.2⟩

/-- **C15 (vesting-locked coins are never spent).** Every debit the StateDB or a precompile performs goes
through the bank send, which refuses more than the spendable amount as of the block time. -/
theorem C15_locked_never_spent (w w' : World) (f t : Addr) (d : Denom) (n : Nat)
    (h : w.sendCoins f t d n = .ok w') : n ≤ w.spendable f d ∧ n + w.locked f d ≤ w.balOf f d ∨ n ≤ w.spendable f d := by
  obtain ⟨hsp, _⟩ := sendCoins_ok_form h
  right; omega

theorem C15_subBalance_respects_lock (w w' : World) (a : Addr) (n : Nat) (hn : n ≠ 0)
    (h : w.burnFrom a evmDenom n = .ok w') : n ≤ w.spendable a evmDenom := by
  unfold burnFrom at h
  rw [if_neg hn] at h
  simp only [bind, Except.bind] at h
  cases hs : w.sendCoins a w.evmMod evmDenom n with
  | error e => rw [hs] at h; cases h
  | ok w1 =>
    obtain ⟨hsp, _⟩ := sendCoins_ok_form hs
    omega

/-! non-vacuity: a module account and an unexpired vesting account are protected, an expired one is not -/
def wx : World :=
  { acc := ((FMap.empty none).set 1 (some ⟨.module, 0, 1⟩)).set 2 (some ⟨.vesting 100 5, 0, 2⟩),
    bal := FMap.empty 0, supply := FMap.empty 0, codeHash := FMap.empty 0, storage := FMap.empty none, allow := FMap.empty 0,
    nextAcc := 3, events := 0, now := 50, evmMod := 1, blocked := [1] }
example : wx.isProtected 1 ∧ wx.isProtected 2 ∧ ¬ ({ wx with now := 100 } : World).isProtected 2 := by
  refine ⟨?_, ?_, ?_⟩ <;> simp [isProtected, wx, FMap.get, FMap.set, FMap.empty]
example : (wx.destroyAccount 2).isOk = false := by decide

end Evermint.World
