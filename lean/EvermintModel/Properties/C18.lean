import EvermintModel.Model.Genesis
/-!
# C18 — genesis export / import round-trips the custom modules' state

`C18_full` (everything observable survives) is **false** of the current code (finding F10): ERC-20
precompiles deployed after genesis, disabled flags, allowances and ownership proofs have no place in the
exported genesis.  Proved: exactness for fee market and EVM contracts, the precise condition under which
the cpc / vauth part survives, and idempotence of export ∘ import ∘ export for every state.
-/
namespace Evermint.Genesis
open Evermint

/-- the full-strength statement -/
def C18_full : Prop := ∀ s : State, (∀ c ∈ s.contracts, c.code ≠ 0) → import_ (export_ s) = s

/-- a chain with one ERC-20 precompile deployed by message, one allowance and one proof -/
def lossy : State :=
  { contracts := [], evmParams := 0, feeParams := 0, baseFee := 7, cpcVersion := 1, cpcWhitelist := [3],
    cpc := [⟨Cpc.bech32Addr, Cpc.tyBech32, 0, false⟩, ⟨Cpc.createAddr 0, Cpc.tyErc20, 5, false⟩],
    allowances := [(1, 2, 500)], proofs := [9] }

/-- **C18 fails as stated (F10).** -/
theorem C18_full_fails : ¬ C18_full := by
  intro h
  have := h lossy (by intro c hc; cases hc)
  revert this
  decide

/-- **C18 (fee market).** All parameters including the current base fee survive. -/
theorem C18_feemarket_roundtrip (s : State) :
    (import_ (export_ s)).feeParams = s.feeParams ∧ (import_ (export_ s)).baseFee = s.baseFee := ⟨rfl, rfl⟩

/-- **C18 (EVM).** Every contract (address with a code hash) comes back with its code and every storage
entry, zero-valued entries included; parameters too.  An address that has storage but no code hash is
not exported. -/
theorem C18_evm_roundtrip (s : State) :
    (import_ (export_ s)).contracts = s.contracts.filter (fun c => c.code != 0) ∧
    (import_ (export_ s)).evmParams = s.evmParams := ⟨rfl, rfl⟩

theorem C18_evm_roundtrip_exact (s : State) (h : ∀ c ∈ s.contracts, c.code ≠ 0) :
    (import_ (export_ s)).contracts = s.contracts := by
  rw [(C18_evm_roundtrip s).1]
  apply List.filter_eq_self.2
  intro c hc
  simpa using h c hc

/-- what survives of the precompile registry: exactly the genesis-deployable contracts -/
def cpcSurvives (s : State) : Prop :=
  s.cpc = (if s.cpc.any (fun e => e.addr == Cpc.stakingAddr) then [⟨Cpc.stakingAddr, Cpc.tyStaking, 0, false⟩] else []) ++
          [⟨Cpc.bech32Addr, Cpc.tyBech32, 0, false⟩]

/-- **C18 (cpc, vauth — partial).** The whole state round-trips exactly when: every stored address with
storage has code, the registry holds only the bech32 contract and optionally the staking contract, both
enabled, there are no allowances and no proofs. -/
theorem C18_roundtrip_partial (s : State) (h1 : ∀ c ∈ s.contracts, c.code ≠ 0) (h2 : cpcSurvives s)
    (h3 : s.allowances = []) (h4 : s.proofs = []) : import_ (export_ s) = s := by
  have hc := C18_evm_roundtrip_exact s h1
  cases s with
  | mk contracts evmParams feeParams baseFee cpcVersion cpcWhitelist cpc allowances proofs =>
    simp only [] at h3 h4 hc h2
    subst h3 h4
    unfold cpcSurvives at h2
    simp only [import_, export_, exportEvm, exportCpc] at hc ⊢
    simp only [State.mk.injEq, and_true, true_and]
    refine ⟨hc, ?_⟩
    simp only [Bool.false_eq_true, if_false, List.append_nil]
    exact h2.symm

theorem staking_flag_stable (b : Bool) :
    (((if b = true then [(⟨Cpc.stakingAddr, Cpc.tyStaking, 0, false⟩ : CpcEntry)] else []) ++
        [(⟨Cpc.bech32Addr, Cpc.tyBech32, 0, false⟩ : CpcEntry)] ++
        (if false = true then [(⟨Cpc.createAddr 0, Cpc.tyErc20, 0, false⟩ : CpcEntry)] else [])).any
      (fun e => e.addr == Cpc.stakingAddr)) = b := by
  cases b <;> decide

/-- **C18 (second export).** Exporting the re-imported state yields the same export again — for every
state, including the lossy ones. -/
theorem C18_export_idempotent (s : State) : export_ (import_ (export_ s)) = export_ s := by
  simp only [export_, import_, exportEvm, exportCpc, Exported.mk.injEq, EvmGen.mk.injEq, CpcGen.mk.injEq, and_true, true_and]
  refine ⟨?_, ?_⟩
  · simp [List.filter_filter]
  · exact staking_flag_stable _

/-! non-vacuity -/
def clean : State :=
  { contracts := [⟨11, 3, [(0, 0), (1, 42)]⟩], evmParams := 1, feeParams := 2, baseFee := 875, cpcVersion := 1, cpcWhitelist := [],
    cpc := [⟨Cpc.stakingAddr, Cpc.tyStaking, 0, false⟩, ⟨Cpc.bech32Addr, Cpc.tyBech32, 0, false⟩], allowances := [], proofs := [] }
example : import_ (export_ clean) = clean := by decide
example : (import_ (export_ lossy)).cpc.length = 1 ∧ (import_ (export_ lossy)).proofs = [] := by decide

end Evermint.Genesis
