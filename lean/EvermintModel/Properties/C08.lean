import EvermintModel.Model.Query
import EvermintModel.Model.CDbGeneric
/-!
# C08 — simulation and query paths are side-effect free and predict execution
* `C08_estimate` — a returned estimate was observed executable, for **every** `executable` function
  (no monotonicity assumption).
* `C08_no_commit_no_write` — whatever the simulated code does through the StateDB (any writes by the
  interpreter or by precompiles into any module, any nesting of snapshots and reverts), the context the
  StateDB was created on is never written unless `CommitMultiStore` is called: with `commit = false` the
  caller's world is untouched.  (The query / check-tx / simulate paths additionally run on a branched
  context that is dropped — tied by E-query, which hashes every store before and after.)
-/
namespace Evermint.Query

theorem binSearch_spec (exec : Exec) : ∀ (lo hi g : Nat), binSearch exec lo hi = some g →
    (g = hi ∨ exec g = some false) ∧ (lo < hi → lo < g) ∧ g ≤ hi := by
  intro lo hi
  induction h : hi - lo using Nat.strongRecOn generalizing lo hi with
  | _ n ih =>
    intro g hg
    unfold binSearch at hg
    by_cases hlt : lo + 1 < hi
    · simp only [hlt, dite_true] at hg
      have hmid1 : lo < (hi + lo) / 2 := by omega
      have hmid2 : (hi + lo) / 2 < hi := by omega
      cases he : exec ((hi + lo) / 2) with
      | none => rw [he] at hg; cases hg
      | some b =>
        rw [he] at hg
        cases b with
        | true =>
          simp only [] at hg
          obtain ⟨a1, a2, a3⟩ := ih (hi - (hi + lo) / 2) (by omega) ((hi + lo) / 2) hi rfl g hg
          exact ⟨a1, fun _ => by have := a2 hmid2; omega, a3⟩
        | false =>
          simp only [] at hg
          obtain ⟨a1, a2, a3⟩ := ih ((hi + lo) / 2 - lo) (by omega) lo ((hi + lo) / 2) rfl g hg
          refine ⟨?_, fun _ => a2 hmid1, by omega⟩
          rcases a1 with a1 | a1
          · right; rw [a1]; exact he
          · exact Or.inr a1
    · simp only [hlt, dite_false, Option.some.injEq] at hg
      subst hg
      exact ⟨Or.inl rfl, fun h => h, Nat.le_refl _⟩

/-- **C08 (estimate).** If `EstimateGas` returns a gas value, running the message with exactly that gas
limit on the same state does not fail (no out-of-gas, no revert) — whatever the shape of `executable`. -/
theorem C08_estimate (exec : Exec) (lo cap g : Nat) (h : estimate exec lo cap = .gas g) : exec g = some false := by
  unfold estimate at h
  cases hb : binSearch exec lo cap with
  | none => rw [hb] at h; cases h
  | some x =>
    rw [hb] at h
    simp only [] at h
    obtain ⟨h1, _, _⟩ := binSearch_spec exec lo cap x hb
    by_cases hx : x = cap
    · rw [if_pos hx] at h
      cases he : exec x with
      | none => rw [he] at h; cases h
      | some b =>
        rw [he] at h
        cases b with
        | true => cases h
        | false => simp only [Estimate.gas.injEq] at h; subst h; exact he
    · rw [if_neg hx] at h
      simp only [Estimate.gas.injEq] at h
      subst h
      rcases h1 with h1 | h1
      · exact absurd h1 hx
      · exact h1

/-- the estimate lies in `(lo, cap]` -/
theorem C08_estimate_range (exec : Exec) (lo cap g : Nat) (hlo : lo < cap) (h : estimate exec lo cap = .gas g) : lo < g ∧ g ≤ cap := by
  unfold estimate at h
  cases hb : binSearch exec lo cap with
  | none => rw [hb] at h; cases h
  | some x =>
    rw [hb] at h
    simp only [] at h
    obtain ⟨_, h2, h3⟩ := binSearch_spec exec lo cap x hb
    by_cases hx : x = cap
    · rw [if_pos hx] at h
      cases he : exec x with
      | none => rw [he] at h; cases h
      | some b =>
        rw [he] at h
        cases b with
        | true => cases h
        | false => simp only [Estimate.gas.injEq] at h; subst h; exact ⟨h2 hlo, h3⟩
    · rw [if_neg hx] at h
      simp only [Estimate.gas.injEq] at h
      subst h; exact ⟨h2 hlo, h3⟩

/-! non-vacuity: a non-monotone `executable` (succeeds in [30,50], fails in (50,200), succeeds from 200) -/
def gappy : Exec := fun g => some (!(decide (30 ≤ g ∧ g ≤ 50) || decide (200 ≤ g)))
example : estimate gappy 20 400 = .gas 200 ∧ gappy 200 = some false ∧ gappy 100 = some true := by
  refine ⟨?_, by decide, by decide⟩
  simp [estimate, binSearch, gappy]

/-- **C08 (estimate, whole wrapper).** Whatever gas the caller offers, whatever the block gas limit and the gas cap
of the request: an estimate that is returned is a gas limit the call succeeds with, and it never exceeds the cap. -/
theorem C08_estimateGas (exec : Exec) (argsGas : Option Nat) (maxGas : Int) (reqCap g : Nat)
    (h : estimateGas exec argsGas maxGas reqCap = .gas g) : exec g = some false :=
  C08_estimate exec 20999 _ g h

theorem searchBound_le_cap (argsGas : Option Nat) (maxGas : Int) (reqCap : Nat) (hc : reqCap ≠ 0) : searchBound argsGas maxGas reqCap ≤ reqCap := by
  unfold searchBound
  generalize rawBound argsGas maxGas reqCap = hi
  by_cases h : reqCap ≠ 0 ∧ hi > reqCap
  · rw [if_pos h]; exact Nat.le_refl _
  · rw [if_neg h]
    have : ¬ hi > reqCap := fun hgt => h ⟨hc, hgt⟩
    omega

theorem C08_estimateGas_capped (exec : Exec) (argsGas : Option Nat) (maxGas : Int) (reqCap g : Nat) (hc : reqCap ≠ 0)
    (hlo : 20999 < searchBound argsGas maxGas reqCap) (h : estimateGas exec argsGas maxGas reqCap = .gas g) : g ≤ reqCap :=
  Nat.le_trans (C08_estimate_range exec 20999 _ g hlo h).2 (searchBound_le_cap argsGas maxGas reqCap hc)

/-- the order matters: with the cap remembered before the recap, a call that needs more than the cap gets the cap
back as its "estimate" (caller gas 10 000 000, cap 50 000, the call needs 198 220) -/
theorem C08_stale_cap_returns_unexecutable :
    estimateGasStale (fun g => some (decide (g < 198220))) (some 10000000) (-1) 50000 = .gas 50000 ∧
    (fun g => some (decide (g < 198220))) 50000 = some true ∧
    estimateGas (fun g => some (decide (g < 198220))) (some 10000000) (-1) 50000 = .error := by
  refine ⟨?_, rfl, ?_⟩ <;> simp [estimateGasStale, estimateGas, estimate, searchBound, rawBound, binSearch]

end Evermint.Query

namespace Evermint.CDbG
variable {W J : Type}

theorem step_orig (s s' : CDb W J) (o : Op W J) (h : s.step o = some s') : s'.orig = s.orig := by
  cases o with
  | upd f => simp only [CDb.step, Option.some.injEq] at h; subst h; rfl
  | snapshot => simp only [CDb.step, Option.some.injEq] at h; subst h; rfl
  | revert id =>
    simp only [CDb.step] at h
    unfold CDb.revert at h
    split at h
    · cases h
    · split at h
      · cases h
      · simp only [Option.some.injEq] at h; subst h; rfl

/-- **C08 (no commit, no write).** Any sequence of StateDB operations — writes by the interpreter and by
precompiles into any module, arbitrarily nested snapshots and reverts — leaves the context the StateDB was
created on exactly as it was.  Only `CommitMultiStore` (commit = true) ever writes it. -/
theorem C08_no_commit_no_write (w : W) (j0 : J) (ops : List (Op W J)) (s' : CDb W J)
    (h : (new w j0).run ops = some s') : s'.orig = w := by
  have key : ∀ (ops : List (Op W J)) (s s' : CDb W J), s.run ops = some s' → s'.orig = s.orig := by
    intro ops
    induction ops with
    | nil => intro s s' h; simp only [CDb.run, Option.some.injEq] at h; subst h; rfl
    | cons o os ih =>
      intro s s' h
      simp only [CDb.run] at h
      cases hs : s.step o with
      | none => rw [hs] at h; cases h
      | some s1 =>
        rw [hs] at h
        exact (ih s1 s' h).trans (step_orig s s1 o hs)
  exact key ops (new w j0) s' h

end Evermint.CDbG
