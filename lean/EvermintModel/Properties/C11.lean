import EvermintModel.Model.StakingCpc
/-!
# C11 — the staking precompile acts only for its caller and mirrors native staking  *(thin proof + twin execution)*
-/
namespace Evermint.StakingCpc

/-- **C11 (caller only).** Whatever method is called and whatever the arguments say, the native message
handed to the staking / distribution message servers names the immediate caller as delegator. -/
theorem C11_caller_only (caller : Nat) (c : Call) (n : Native) (h : toNative caller c = some n) : n.delegator = caller := by
  cases c with
  | delegate v a =>
    simp only [toNative] at h
    split at h
    · cases h
    · simp only [Option.some.injEq] at h; subst h; rfl
  | undelegate v a =>
    simp only [toNative] at h
    split at h
    · cases h
    · simp only [Option.some.injEq] at h; subst h; rfl
  | redelegate s d a =>
    simp only [toNative] at h
    split at h
    · cases h
    · simp only [Option.some.injEq] at h; subst h; rfl
  | withdrawReward v => simp only [toNative, Option.some.injEq] at h; subst h; rfl
  | withdrawRewards => simp only [toNative, Option.some.injEq] at h; subst h; rfl
  | transfer to a =>
    simp only [toNative] at h
    split at h
    · cases h
    · simp only [Option.some.injEq] at h; subst h; rfl
  | byMessage act md v ov a valid rec =>
    simp only [toNative] at h
    by_cases h1 : (!valid) = true
    · rw [if_pos h1] at h; cases h
    rw [if_neg h1] at h
    by_cases h2 : caller ≠ md
    · rw [if_pos h2] at h; cases h
    rw [if_neg h2] at h
    by_cases h3 : rec ≠ some md
    · rw [if_pos h3] at h; cases h
    rw [if_neg h3] at h
    have hc : caller = md := by simpa using h2
    cases act <;> (simp only [Option.some.injEq] at h; subst h; simp [Native.delegator, hc])
  | withdrawByMessage md fv valid rec =>
    simp only [toNative] at h
    by_cases h1 : (!valid) = true
    · rw [if_pos h1] at h; cases h
    rw [if_neg h1] at h
    by_cases h2 : caller ≠ md
    · rw [if_pos h2] at h; cases h
    rw [if_neg h2] at h
    by_cases h3 : rec ≠ some md
    · rw [if_pos h3] at h; cases h
    rw [if_neg h3] at h
    have hc : caller = md := by simpa using h2
    cases fv <;> (simp only [Option.some.injEq] at h; subst h; simp [Native.delegator, hc])

/-- **C11 (signed variants).** A `*ByMessage` call acts only if the message's delegator is the caller *and*
the EIP-712 signature recovers, for this chain id, to that same address. -/
theorem C11_signed (caller : Nat) (act : Action) (md v ov a : Nat) (valid : Bool) (rec : Option Nat) (n : Native)
    (h : toNative caller (.byMessage act md v ov a valid rec) = some n) : md = caller ∧ rec = some caller ∧ valid = true := by
  simp only [toNative] at h
  by_cases h1 : (!valid) = true
  · rw [if_pos h1] at h; cases h
  rw [if_neg h1] at h
  by_cases h2 : caller ≠ md
  · rw [if_pos h2] at h; cases h
  rw [if_neg h2] at h
  by_cases h3 : rec ≠ some md
  · rw [if_pos h3] at h; cases h
  have hc : caller = md := by simpa using h2
  have hr : rec = some md := by simpa using h3
  exact ⟨hc.symm, by rw [hr, hc], by simpa using h1⟩

theorem C11_signed_withdraw (caller md : Nat) (fv : Option Nat) (valid : Bool) (rec : Option Nat) (n : Native)
    (h : toNative caller (.withdrawByMessage md fv valid rec) = some n) : md = caller ∧ rec = some caller := by
  simp only [toNative] at h
  by_cases h1 : (!valid) = true
  · rw [if_pos h1] at h; cases h
  rw [if_neg h1] at h
  by_cases h2 : caller ≠ md
  · rw [if_pos h2] at h; cases h
  rw [if_neg h2] at h
  by_cases h3 : rec ≠ some md
  · rw [if_pos h3] at h; cases h
  have hc : caller = md := by simpa using h2
  have hr : rec = some md := by simpa using h3
  exact ⟨hc.symm, by rw [hr, hc]⟩

/-- **C11 (effect = native message).** The non-signed and the signed variant of an action hand the *same*
native message to the module: nothing else is written by the precompile itself. -/
theorem C11_signed_same_native (caller v ov a : Nat) (ha : a ≠ 0) :
    toNative caller (.byMessage .delegate caller v ov a true (some caller)) = toNative caller (.delegate v a) ∧
    toNative caller (.byMessage .undelegate caller v ov a true (some caller)) = toNative caller (.undelegate v a) ∧
    toNative caller (.byMessage .redelegate caller v ov a true (some caller)) = toNative caller (.redelegate ov v a) := by
  simp [toNative, ha]

/-- **C11 (logs match exactly the events of this call).** Events that were already in the manager are never
re-emitted, every new staking / distribution event with a positive amount yields its log(s), in order, and
nothing else does. -/
theorem C11_logs_exact (d : Nat) (old new : List Ev) (hold : ∀ e ∈ old, e ≠ .other) (hnew : (new.filter (· ≠ .other)) ≠ []) :
    logsOf d (old ++ new) old.length = some ((new.filter (· ≠ .other)).flatMap (toLogs d)) := by
  unfold logsOf
  have h1 : (old ++ new).filter (· ≠ .other) = old ++ new.filter (· ≠ .other) := by
    rw [List.filter_append]
    congr 1
    apply List.filter_eq_self.2
    intro e he; simpa using hold e he
  simp only [h1, List.length_append]
  have hpos : 0 < (new.filter (· ≠ .other)).length := List.length_pos_iff.2 hnew
  rw [if_neg (by omega)]
  simp

/-- two calls in one transaction (one event manager): together they emit exactly the logs of their own events, once -/
theorem C11_two_calls (d : Nat) (ev1 ev2 : List Ev) (h1 : ∀ e ∈ ev1, e ≠ .other) (hn1 : ev1 ≠ []) (hn2 : (ev2.filter (· ≠ .other)) ≠ []) :
    (logsOf d ev1 0).bind (fun l1 => (logsOf d (ev1 ++ ev2) ev1.length).map (fun l2 => l1 ++ l2)) =
      some (ev1.flatMap (toLogs d) ++ (ev2.filter (· ≠ .other)).flatMap (toLogs d)) := by
  have hf : ev1.filter (· ≠ .other) = ev1 := List.filter_eq_self.2 (fun e he => by simpa using h1 e he)
  have a := C11_logs_exact d [] ev1 (by intro e he; cases he) (by rw [hf]; exact hn1)
  simp only [List.nil_append, List.length_nil] at a
  rw [a, C11_logs_exact d ev1 ev2 h1 hn2, hf]
  rfl

/-- a call whose module action emitted no relevant event fails ("no old-event found") -/
theorem C11_no_event_fails (d : Nat) (old : List Ev) (hold : ∀ e ∈ old, e ≠ .other) : logsOf d old old.length = none := by
  unfold logsOf
  have : old.filter (· ≠ .other) = old := List.filter_eq_self.2 (fun e he => by simpa using hold e he)
  simp only [this, Nat.le_refl, if_true]

/-- `transfer` never moves anything to another account: it acts only when the receiver is the caller. -/
theorem C11_transfer_self_only (caller to a : Nat) (n : Native) (h : toNative caller (.transfer to a) = some n) :
    to = caller ∧ n = .selfStake caller a := by
  simp only [toNative] at h
  split at h
  · cases h
  · rename_i hc
    simp only [Option.some.injEq] at h
    refine ⟨?_, h.symm⟩
    by_cases ht : to = caller
    · exact ht
    · exact absurd (Or.inr (Or.inr (Or.inl ht))) hc

def Log.delegator : Log → Nat
  | .delegate d _ _ => d | .undelegate d _ _ => d | .withdrawReward d _ _ => d

def Ev.delegatorIs (d : Nat) : Ev → Prop
  | .delegate _ x _ => x = d | .unbond _ x _ => x = d | .withdraw _ x _ => x = d | _ => True

/-- when the module events of the call all name `d` (what `C11_caller_only` + the twin execution give), every
emitted log names `d` too: no log is ever attributed to a third party. -/
theorem C11_logs_name_delegator (d : Nat) (events : List Ev) (k : Nat) (ls : List Log)
    (hev : ∀ e ∈ events, e.delegatorIs d) (h : logsOf d events k = some ls) : ∀ l ∈ ls, l.delegator = d := by
  unfold logsOf at h
  simp only at h
  split at h
  · cases h
  · simp only [Option.some.injEq] at h
    subst h
    intro l hl
    rcases List.mem_flatMap.1 hl with ⟨e, he, hle⟩
    have he' : e ∈ events := (List.mem_filter.1 (List.mem_of_mem_drop he)).1
    have hd := hev e he'
    cases e with
    | delegate v x a => simp only [toLogs] at hle; split at hle <;> simp at hle; subst hle; exact hd
    | unbond v x a => simp only [toLogs] at hle; split at hle <;> simp at hle; subst hle; exact hd
    | redelegate s t a =>
      simp only [toLogs] at hle
      split at hle
      · simp at hle; rcases hle with h | h <;> (subst h; rfl)
      · simp at hle
    | withdraw v x a => simp only [toLogs] at hle; split at hle <;> simp at hle; subst hle; exact hd
    | other => simp [toLogs] at hle

/-! non-vacuity -/
example : toNative 7 (.transfer 7 50) = some (.selfStake 7 50) := by decide
example : toNative 7 (.transfer 8 50) = none := by decide
example : toNative 7 (.byMessage .delegate 7 3 0 50 true (some 7)) = some (.delegate 7 3 50) := by decide
example : toNative 7 (.byMessage .delegate 8 3 0 50 true (some 8)) = none := by decide       -- somebody else's signed message
example : toNative 7 (.byMessage .delegate 7 3 0 50 true (some 9)) = none := by decide       -- forged / foreign-chain signature
example : logsOf 7 [.redelegate 1 2 30, .other, .withdraw 1 7 5] 0 = some [.undelegate 7 1 30, .delegate 7 2 30, .withdrawReward 7 1 5] := by decide

end Evermint.StakingCpc
