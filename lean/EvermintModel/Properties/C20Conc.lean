import EvermintModel.Model.EventSys
/-!
# C20 (concurrency part) — no interleaving of subscribe / unsubscribe / event delivery crashes the node or
drops a live subscription

For every schedule (every list of attempted steps, of any length) of the protocol as the tree has it now:
the consumer never sends on a closed channel, and no live subscriber loses its channel.  For the protocol as
it was, both failures are reachable: the witnesses are the schedules E-conc forces on the real goroutines.
-/
namespace Evermint.EventSys

/-- invariant of the repaired protocol -/
def Inv (s : State) : Prop :=
  s.crashed = false ∧ s.dropped = false ∧ s.joined = 0 ∧
  (∀ c, s.topic = some c → ¬ c ∈ s.closed ∧ c < s.nextChan) ∧
  (∀ c, s.holding = some c → s.topic = some c) ∧
  (∀ c, c ∈ s.closed → c < s.nextChan)

theorem inv_init : Inv {} := by
  refine ⟨rfl, rfl, rfl, ?_, ?_, ?_⟩ <;> intro c h <;> simp at h

theorem inv_step (s s' : State) (o : Op) (hi : Inv s) (h : step fixed s o = some s') : Inv s' := by
  obtain ⟨hc, hd, hj, ht, hh, hcl⟩ := hi
  cases o with
  | install =>
    simp only [step, hc, Bool.false_or] at h
    split at h
    · cases h
    · rename_i hw
      cases htp : s.topic with
      | some c =>
        simp only [htp, Option.some.injEq] at h; subst h
        exact ⟨by simp [hc], by simp [hd], by simp [hj], by simpa [htp] using ht, by simpa [htp] using hh, hcl⟩
      | none =>
        simp only [htp, Option.some.injEq] at h; subst h
        refine ⟨by simp [hc], by simp [hd], by simp [hj], ?_, ?_, ?_⟩
        · intro c hcEq
          simp only [Option.some.injEq] at hcEq; subst hcEq
          refine ⟨fun hm => ?_, Nat.lt_succ_self _⟩
          exact absurd (hcl _ hm) (Nat.lt_irrefl _)
        · intro c hcEq
          have := hh c hcEq
          rw [htp] at this; cases this
        · intro c hm; exact Nat.lt_succ_of_lt (hcl c hm)
  | uninstall =>
    simp only [step, hc, Bool.false_or] at h
    split at h
    · cases h
    · rename_i hw
      have hfree : writeLockFree fixed s = true ∧ s.indexed ≠ 0 := by
        simp only [Bool.or_eq_true, Bool.not_eq_true', decide_eq_true_eq, not_or] at hw
        exact ⟨by simpa using hw.1, hw.2⟩
      have hnohold : s.holding = none := by
        have := hfree.1
        simp only [writeLockFree, fixed, Bool.true_and, Bool.not_eq_true', Option.isSome_eq_false_iff] at this
        simpa using this
      split at h
      · cases htp : s.topic with
        | some c =>
          simp only [htp, Option.some.injEq] at h; subst h
          refine ⟨by simp [hc], ?_, by simp [hj], ?_, ?_, ?_⟩
          · simp [hd, hj]
          · intro c' h'; cases h'
          · intro c' h'; simp only at h'; rw [hnohold] at h'; cases h'
          · intro c' hm
            simp only [List.mem_cons] at hm
            rcases hm with rfl | hm
            · exact (ht _ htp).2
            · exact hcl _ hm
        | none =>
          simp only [htp, Option.some.injEq] at h; subst h
          exact ⟨by simp [hc], by simp [hd], by simp [hj], by simpa [htp] using ht, by simpa [htp] using hh, hcl⟩
      · simp only [Option.some.injEq] at h; subst h
        exact ⟨by simp [hc], by simp [hd], by simp [hj], ht, hh, hcl⟩
  | join =>
    simp only [step, hc, Bool.false_or, fixed, if_true] at h
    split at h
    · cases h
    · split at h
      · cases h
      · simp only [Option.some.injEq] at h; subst h
        exact ⟨by simp [hc], by simp [hd], by simp [hj], ht, hh, hcl⟩
  | leave =>
    simp only [step, hc, Bool.false_or, hj, decide_true, if_true] at h
    cases h
  | consumeRead =>
    simp only [step, hc, Bool.false_or] at h
    split at h
    · cases h
    · cases htp : s.topic with
      | some c =>
        simp only [htp, Option.some.injEq] at h; subst h
        refine ⟨by simp [hc], by simp [hd], by simp [hj], by simpa [htp] using ht, ?_, hcl⟩
        intro c' h'; simp only [Option.some.injEq] at h'; subst h'; rfl
      | none =>
        simp only [htp, Option.some.injEq] at h; subst h
        exact ⟨by simp [hc], by simp [hd], by simp [hj], by simpa [htp] using ht, by simpa [htp] using hh, hcl⟩
  | consumeSend =>
    simp only [step] at h
    cases hho : s.holding with
    | none => simp [hho] at h
    | some c =>
      simp only [hho, hc, Bool.false_eq_true, if_false] at h
      have hopen : ¬ c ∈ s.closed := (ht c (hh c hho)).1
      have : s.closed.contains c = false := by simpa using hopen
      simp only [this, Bool.false_eq_true, if_false, Option.some.injEq] at h
      subst h
      refine ⟨by simp [hc], by simp [hd], by simp [hj], ht, ?_, hcl⟩
      intro c' h'; cases h'
  | consumeTimeout =>
    simp only [step] at h
    cases hho : s.holding with
    | none => simp [hho] at h
    | some c =>
      simp only [hho, hc, Bool.false_eq_true, if_false, Option.some.injEq] at h
      subst h
      refine ⟨by simp [hc], by simp [hd], by simp [hj], ht, ?_, hcl⟩
      intro c' h'; cases h'

theorem inv_run (ops : List Op) (s : State) (hi : Inv s) : Inv (run fixed s ops) := by
  induction ops generalizing s with
  | nil => exact hi
  | cons o os ih =>
    simp only [run]
    cases h : step fixed s o with
    | some s' => exact ih s' (inv_step s s' o hi h)
    | none => exact ih s hi

/-- **C20 (event system).** Whatever subscribers, unsubscribers and event deliveries do, and in whatever
order, the consumer goroutine never sends on a closed channel and no live subscription loses its channel. -/
theorem C20_no_send_on_closed (ops : List Op) : (run fixed {} ops).crashed = false ∧ (run fixed {} ops).dropped = false :=
  ⟨(inv_run ops {} inv_init).1, (inv_run ops {} inv_init).2.1⟩

/-- the protocol as it was: an event arrives while the last subscriber unsubscribes — the node process dies -/
theorem C20_original_crashes : (run original {} [.install, .consumeRead, .uninstall, .consumeSend]).crashed = true := by decide

/-- the protocol as it was: the second subscriber of a query is cut off when the first one unsubscribes -/
theorem C20_original_drops : (run original {} [.install, .join, .uninstall]).dropped = true := by decide

/-- each repair is needed on its own -/
theorem C20_lock_needed : (run { fixed with lockAcrossSend := false } {} [.install, .consumeRead, .uninstall, .consumeSend]).crashed = true := by decide
theorem C20_index_needed : (run { fixed with indexJoined := false } {} [.install, .join, .uninstall]).dropped = true := by decide

/-- non-vacuity: under the repaired protocol the dangerous schedules do run — the uninstall simply waits -/
example : (run fixed {} [.install, .consumeRead, .uninstall, .consumeSend, .uninstall]).topic = none ∧
          (run fixed {} [.install, .consumeRead, .uninstall, .consumeSend, .uninstall]).crashed = false := by decide

end Evermint.EventSys
