import EvermintModel.Model.CallTree
import EvermintModel.Properties.C10
/-!
# C12 — read-only EVM contexts cannot change state through custom precompiles

The full statement ("inside a STATICCALL context no call to a custom precompile can change any state or
emit a log, however deeply nested and whichever call opcode is used") is **false** of the pinned fork
(`C12_full_fails`, finding F6): write protection is decided from the call-site literal only.  Proved:
the direct STATICCALL edge is refused for every write method; a STATICCALL frame whose write calls all
use a STATICCALL edge changes nothing (`C12_static_partial`); view methods never write in any context;
and the table obligations (read-only ⇒ no write API reachable, state-changing ⇒ gas > 0) in `Facts/Cpc.lean`.
-/
namespace Evermint.CallTree
open Evermint Evermint.Erc20

/-- **C12 (direct edge).** A state-changing method reached by STATICCALL itself is refused: nothing
changes, no log. -/
theorem C12_direct_static_refused (x : St) (self tok : Nat) (m : Method) (hw : isWrite m = true) :
    callPc x self .staticcall tok m = x := by
  unfold callPc; simp [readOnlyArg, hw]

/-- **C12 (views).** Methods declared read-only change no state and emit no log, from any context and
through any call opcode. -/
theorem C12_views_never_write (x : St) (self : Nat) (k : Kind) (tok : Nat) (m : Method) (hv : isWrite m = false) :
    callPc x self k tok m = x := by
  unfold callPc
  have h1 : (readOnlyArg k && isWrite m) = false := by simp [hv]
  rw [h1]
  simp only [Bool.false_eq_true, if_false]
  cases hd : x.s.denomOf.get tok with
  | none =>
    have : step x.s ⟨tok, self, m⟩ = (x.s, .revert) := by unfold step; simp [hd]
    rw [this]
  | some d =>
    cases m with
    | balanceOf a => rw [(C10_views_exact x.s tok self d hd).1 a]; simp
    | totalSupply => rw [(C10_views_exact x.s tok self d hd).2.1]; simp
    | allowance o sp => rw [(C10_views_exact x.s tok self d hd).2.2 o sp]; simp
    | transfer _ _ => simp [isWrite] at hv
    | transferFrom _ _ _ => simp [isWrite] at hv
    | approve _ _ => simp [isWrite] at hv
    | burn _ => simp [isWrite] at hv
    | burnFrom _ _ => simp [isWrite] at hv

/-- the full-strength statement of the property for the ERC-20 precompiles -/
def C12_full : Prop :=
  ∀ (x : St) (self target : Nat) (body : List Act) (rev : Bool),
    execAct x self (.sub .staticcall target body rev) = x

/-- **C12 fails as stated (F6).** `STATICCALL → contract 6 → CALL → erc20(50).transfer(2, 7)`: 7 coins
move and a `Transfer` log is emitted inside the read-only context. -/
theorem C12_full_fails : ¬ C12_full := by
  intro h
  have h1 := h ⟨{ w0 with bal := w0.bal.set (6, 0) 100 }, []⟩ 5 6 [.pc .call 50 (.transfer 2 7)] false
  have h2 : (execAct ⟨{ w0 with bal := w0.bal.set (6, 0) 100 }, []⟩ 5 (.sub .staticcall 6 [.pc .call 50 (.transfer 2 7)] false)).logs.length = 1 := by
    decide
  rw [h1] at h2
  cases h2

mutual
/-- every state-changing precompile call in the tree is made through a STATICCALL edge (so it is refused) -/
def Act.guarded : Act → Bool
  | .pc k _ m => !isWrite m || k == .staticcall
  | .sub _ _ body _ => guardedList body
def guardedList : List Act → Bool
  | [] => true
  | a :: as => a.guarded && guardedList as
end

mutual
theorem execAct_guarded : ∀ (a : Act) (x : St) (self : Nat), a.guarded = true → execAct x self a = x
  | .pc k tok m, x, self, h => by
    unfold execAct
    unfold Act.guarded at h
    cases hw : isWrite m with
    | false => exact C12_views_never_write x self k tok m hw
    | true =>
      rw [hw] at h
      simp only [Bool.not_true, Bool.false_or, beq_iff_eq] at h
      subst h
      exact C12_direct_static_refused x self tok m hw
  | .sub k target body rev, x, self, h => by
    unfold execAct
    unfold Act.guarded at h
    simp only []
    rw [execList_guarded body x (nextSelf self k target) h]
    cases rev <;> rfl
theorem execList_guarded : ∀ (as : List Act) (x : St) (self : Nat), guardedList as = true → execList x self as = x
  | [], x, self, _ => by unfold execList; rfl
  | a :: as, x, self, h => by
    unfold execList
    unfold guardedList at h
    simp only [Bool.and_eq_true] at h
    rw [execAct_guarded a x self h.1]
    exact execList_guarded as x self h.2
end

/-- **C12 (partial).** A STATICCALL frame — of any depth and shape — in which every state-changing
precompile call uses a STATICCALL edge changes no state and emits no log. -/
theorem C12_static_partial (x : St) (self target : Nat) (body : List Act) (rev : Bool)
    (hg : guardedList body = true) : execAct x self (.sub .staticcall target body rev) = x :=
  execAct_guarded (.sub .staticcall target body rev) x self (by unfold Act.guarded; exact hg)

/-- **C03 (call-tree form).** A frame that ends with REVERT leaves no trace, whatever it did inside,
including writes of precompiles into other modules. -/
theorem C03_reverted_frame_no_trace (x : St) (self target : Nat) (k : Kind) (body : List Act) :
    execAct x self (.sub k target body true) = x := by
  unfold execAct; simp

/-! non-vacuity -/
example : (execAct ⟨{ w0 with bal := w0.bal.set (6, 0) 100 }, []⟩ 5 (.sub .call 6 [.pc .call 50 (.transfer 2 7)] false)).s.bal.get (2, 0) = 7 := by decide
example : guardedList [.sub .call 6 [.pc .staticcall 50 (.transfer 2 7), .pc .call 50 (.balanceOf 2)] false] = true := by decide

end Evermint.CallTree
