import EvermintModel.Model.LogFilter
/-!
# `FilterLogs` never indexes out of range, and selects exactly what the criterion means (C20, C14)
-/
namespace Evermint.LogFilter

/-- with `i + |rest| ≤ |lt|` every indexed position exists -/
theorem topicLoop_total (lt : List Nat) : ∀ (rest : List (List Nat)) (i : Nat), i + rest.length ≤ lt.length → ∃ b, topicLoop lt i rest = some b
  | [], i, _ => ⟨true, rfl⟩
  | sub :: rest, i, h => by
    simp only [topicLoop]
    simp only [List.length_cons] at h
    by_cases he : sub.isEmpty = true
    · simp only [he, if_true]; exact topicLoop_total lt rest (i + 1) (by omega)
    · simp only [he, Bool.false_eq_true, if_false]
      have hi : i < lt.length := by omega
      rw [List.getElem?_eq_getElem hi]
      simp only
      by_cases hc : sub.contains lt[i] = true
      · simp only [hc, if_true]; exact topicLoop_total lt rest (i + 1) (by omega)
      · simp only [hc, Bool.false_eq_true, if_false]; exact ⟨false, rfl⟩

/-- **C20 (log filters).** Whatever criterion a user installs and whatever log arrives, evaluating the filter
does not panic. -/
theorem C20_filter_total (c : Crit) (l : Log) : ∃ b, selects true c l = some b := by
  unfold selects
  by_cases h1 : belowFrom c l = true
  · exact ⟨false, by simp [h1]⟩
  by_cases h2 : aboveTo c l = true
  · exact ⟨false, by simp [h1, h2]⟩
  by_cases h3 : addrOut c l = true
  · exact ⟨false, by simp [h1, h2, h3]⟩
  by_cases h4 : tooLong c l = true
  · exact ⟨false, by simp [h1, h2, h3, h4]⟩
  · have hlen : c.topics.length ≤ l.topics.length := by
      have : ¬ c.topics.length > l.topics.length := by simpa [tooLong] using h4
      omega
    obtain ⟨b, hb⟩ := topicLoop_total l.topics c.topics 0 (by omega)
    exact ⟨b, by simp [h1, h2, h3, h4, hb]⟩

theorem C20_filterLogs_total (c : Crit) : ∀ (logs : List Log), ∃ r, filterLogs c logs = some r
  | [] => ⟨[], rfl⟩
  | l :: ls => by
    obtain ⟨r, hr⟩ := C20_filterLogs_total c ls
    obtain ⟨b, hb⟩ := C20_filter_total c l
    unfold filterLogs at hr ⊢
    simp only [List.foldr_cons, hr, hb]
    cases b <;> simp

/-- the guard is what makes it total: without it, the filter `[*, B]` panics on a log with one topic -/
theorem C20_guard_needed : selects false { fromB := none, toB := none, addrs := [], topics := [[], [7]] } { addr := 1, topics := [5], block := 3 } = none := by
  decide

/-- the loop decides the positional rule (given that every indexed position exists) -/
theorem topicLoop_spec (lt : List Nat) : ∀ (rest : List (List Nat)) (i : Nat), i + rest.length ≤ lt.length →
    (topicLoop lt i rest = some true ↔ ∀ (j : Nat) (sub : List Nat), rest[j]? = some sub → sub = [] ∨ ∃ t, lt[i + j]? = some t ∧ t ∈ sub)
  | [], i, _ => by simp [topicLoop]
  | sub :: rest, i, h => by
    simp only [List.length_cons] at h
    have ih := topicLoop_spec lt rest (i + 1) (by omega)
    simp only [topicLoop]
    by_cases he : sub.isEmpty = true
    · simp only [he, if_true]
      rw [ih]
      constructor
      · intro H j s hj
        cases j with
        | zero => simp only [List.getElem?_cons_zero, Option.some.injEq] at hj; subst hj; left; simpa using he
        | succ j => simp only [List.getElem?_cons_succ] at hj; have := H j s hj; rwa [Nat.add_assoc, Nat.add_comm 1 j] at this
      · intro H j s hj
        have := H (j + 1) s (by simpa using hj)
        rwa [Nat.add_assoc, Nat.add_comm 1 j]
    · simp only [he, Bool.false_eq_true, if_false]
      have hi : i < lt.length := by omega
      rw [List.getElem?_eq_getElem hi]
      simp only
      by_cases hc : sub.contains lt[i] = true
      · simp only [hc, if_true]
        rw [ih]
        constructor
        · intro H j s hj
          cases j with
          | zero =>
            simp only [List.getElem?_cons_zero, Option.some.injEq] at hj; subst hj
            right; exact ⟨lt[i], by simp [List.getElem?_eq_getElem hi], by simpa using hc⟩
          | succ j => simp only [List.getElem?_cons_succ] at hj; have := H j s hj; rwa [Nat.add_assoc, Nat.add_comm 1 j] at this
        · intro H j s hj
          have := H (j + 1) s (by simpa using hj)
          rwa [Nat.add_assoc, Nat.add_comm 1 j]
      · simp only [hc, Bool.false_eq_true, if_false]
        constructor
        · intro h'; cases h'
        · intro H
          rcases H 0 sub (by simp) with h0 | ⟨t, ht, hm⟩
          · subst h0; simp at he
          · simp only [Nat.add_zero, List.getElem?_eq_getElem hi, Option.some.injEq] at ht
            subst ht
            exact absurd (by simpa using hm) hc

/-- **C14 (log filters).** Inside the block range and address list, a log is selected exactly when the filter
has at most as many positions as the log has topics and every non-wildcard position names the log's topic there. -/
theorem C14_filter_topics (c : Crit) (l : Log) (hf : belowFrom c l = false) (ht : aboveTo c l = false) (ha : addrOut c l = false) :
    selects true c l = some true ↔ topicsOK c l := by
  unfold selects topicsOK
  simp only [hf, ht, ha, Bool.false_eq_true, if_false, Bool.true_and]
  by_cases hg : tooLong c l = true
  · simp only [hg, if_true]
    have : c.topics.length > l.topics.length := by simpa [tooLong] using hg
    constructor
    · intro h; cases h
    · intro h; omega
  · simp only [hg, Bool.false_eq_true, if_false]
    have hlen : c.topics.length ≤ l.topics.length := by
      have : ¬ c.topics.length > l.topics.length := by simpa [tooLong] using hg
      omega
    have := topicLoop_spec l.topics c.topics 0 (by omega)
    simp only [Nat.zero_add] at this
    rw [this]
    exact ⟨fun H => ⟨hlen, H⟩, fun H => H.2⟩

example : filterLogs { fromB := some (-1), toB := none, addrs := [], topics := [[], [7]] }
    [{ addr := 1, topics := [5], block := 3 }, { addr := 1, topics := [5, 7], block := 3 }] = some [{ addr := 1, topics := [5, 7], block := 3 }] := by decide

end Evermint.LogFilter
