import EvermintModel.Properties.C05
/-!
# C06 — only sender-authorised transactions execute, each exactly once

Signature validity is symbolic (`SigClass`, supplied per transaction by the harness which runs the
real recovery): the theorems decide *what the chain does with* a valid / invalid signature.
Histories are arbitrary lists of transactions interleaved with block boundaries.
-/
namespace Evermint.Block

/-- a transaction that changed anything was replay-protected for this chain, signed by the declared
sender, and carried exactly the sender's current sequence -/
theorem C06_authorised (s : BState) (t : EthTx) (x : Exec)
    (hadm : admitted (stepEth s t x).2.cls = true) :
    t.sig = .ok ∧ t.nonce = s.seq.get t.sender := by
  rcases stepEth_cases s t x with ⟨_, h⟩ | ⟨_, _, h⟩ | ⟨_, _, code, _, _, _, h⟩ | ⟨_, _, hr, _, _⟩ | ⟨_, _, hr, _, _, _⟩ |
    ⟨_, _, hr, _, _, _, _⟩ | ⟨_, _, hr, _, _, _, _⟩
  · rw [h] at hadm; simp [noOut, admitted] at hadm
  · rw [h] at hadm; simp [noOut, admitted] at hadm
  · rw [h] at hadm; simp [noOut, admitted] at hadm
  all_goals
    unfold anteReject at hr
    repeat (split at hr; · cases hr)
    rename_i h1 h2 _ _ _ h6 h7
    refine ⟨?_, by simpa using h7⟩
    cases hs : t.sig <;> simp_all

/-- every admitted transaction advances the sender's sequence by exactly one — whether it then
succeeds, reverts, fails with a consensus error, panics, or overflows the block gas — and nobody else's -/
theorem C06_seq_plus_one (s : BState) (t : EthTx) (x : Exec)
    (hadm : admitted (stepEth s t x).2.cls = true) :
    (stepEth s t x).1.seq.get t.sender = s.seq.get t.sender + 1 ∧
    ∀ a, a ≠ t.sender → (stepEth s t x).1.seq.get a = s.seq.get a := by
  rcases stepEth_cases s t x with ⟨_, h⟩ | ⟨_, _, h⟩ | ⟨_, _, code, _, _, _, h⟩ | ⟨_, _, _, _, h⟩ | ⟨_, _, _, _, _, h⟩ |
    ⟨_, _, _, _, _, _, h⟩ | ⟨_, _, _, _, _, _, h⟩ <;> rw [h] at hadm ⊢
  · simp [noOut, admitted] at hadm
  · simp [noOut, admitted] at hadm
  · simp [noOut, admitted] at hadm
  all_goals
    simp only [failedOut, committedOut, anteState]
    exact ⟨FMap.get_set_eq _ _ _, fun a ha => FMap.get_set_ne _ _ _ _ ha⟩

/-- a rejected / dropped transaction leaves every sequence untouched -/
theorem C06_seq_unchanged (s : BState) (t : EthTx) (x : Exec)
    (hadm : admitted (stepEth s t x).2.cls = false) : (stepEth s t x).1.seq = s.seq :=
  (C05_rejected_free s t x hadm).2.2.2.2.1

/-! ## Histories -/

inductive Item where
  | tx (t : EthTx) (x : Exec)
  | newBlock (baseFee : Nat) (maxGas : Int) (minRaw : Nat)   -- balances and sequences persist; per-block bookkeeping resets

def stepItem (s : BState) : Item → BState × Option (EthTx × TxOut)
  | .tx t x => ((stepEth s t x).1, some (t, (stepEth s t x).2))
  | .newBlock b m r => ({ s with baseFee := b, maxGas := m, minRaw := r, blockGas := 0, txCount := 0, gasSlots := [], logSlots := [] }, none)

def runItems (s : BState) : List Item → BState × List (EthTx × TxOut)
  | [] => (s, [])
  | i :: is =>
    let r := stepItem s i
    let rest := runItems r.1 is
    (rest.1, match r.2 with | some o => o :: rest.2 | none => rest.2)

theorem seq_mono_step (s : BState) (i : Item) (a : Nat) : s.seq.get a ≤ (stepItem s i).1.seq.get a := by
  cases i with
  | newBlock b m r => simp [stepItem]
  | tx t x =>
    simp only [stepItem]
    cases hadm : admitted (stepEth s t x).2.cls with
    | false => rw [C06_seq_unchanged s t x hadm]; exact Nat.le_refl _
    | true =>
      have h := C06_seq_plus_one s t x hadm
      by_cases ha : a = t.sender
      · subst ha; rw [h.1]; omega
      · rw [h.2 a ha]; exact Nat.le_refl _

theorem seq_mono_run : ∀ (is : List Item) (s : BState) (a : Nat), s.seq.get a ≤ (runItems s is).1.seq.get a
  | [], s, a => Nat.le_refl _
  | i :: is, s, a => Nat.le_trans (seq_mono_step s i a) (seq_mono_run is _ a)

/-- sequences never move backwards over any history -/
theorem C06_seq_monotone (is : List Item) (s : BState) (a : Nat) :
    s.seq.get a ≤ (runItems s is).1.seq.get a := seq_mono_run is s a

/-- **No replay.**  Once a transaction with `(sender, nonce)` has been admitted, no transaction
with the same `(sender, nonce)` — in particular the same signed bytes — is ever admitted again,
whatever happens in between (any transactions, any number of blocks). -/
theorem C06_no_replay (s : BState) (t : EthTx) (x : Exec) (between : List Item) (t' : EthTx) (x' : Exec)
    (hadm : admitted (stepEth s t x).2.cls = true)
    (hsame : t'.sender = t.sender ∧ t'.nonce = t.nonce) :
    admitted (stepEth (runItems (stepEth s t x).1 between).1 t' x').2.cls = false := by
  cases h : admitted (stepEth (runItems (stepEth s t x).1 between).1 t' x').2.cls with
  | false => rfl
  | true =>
    exfalso
    have h1 := (C06_authorised _ t' x' h).2
    have h2 := (C06_authorised s t x hadm).2
    have h3 := (C06_seq_plus_one s t x hadm).1
    have h4 := seq_mono_run between (stepEth s t x).1 t.sender
    rw [hsame.1, hsame.2] at h1
    omega

/-- sequences advance by exactly the number of admitted transactions of that sender -/
theorem C06_seq_counts (is : List Item) (s : BState) (a : Nat) :
    (runItems s is).1.seq.get a =
      s.seq.get a + ((runItems s is).2.filter (fun p => p.1.sender == a && admitted p.2.cls)).length := by
  induction is generalizing s with
  | nil => simp [runItems]
  | cons i is ih =>
    cases i with
    | newBlock b m r =>
      simp only [runItems, stepItem]
      rw [ih]
    | tx t x =>
      simp only [runItems, stepItem]
      rw [ih]
      cases hadm : admitted (stepEth s t x).2.cls with
      | false =>
        rw [C06_seq_unchanged s t x hadm]
        simp [List.filter_cons, hadm]
      | true =>
        have h := C06_seq_plus_one s t x hadm
        by_cases ha : t.sender = a
        · subst ha; rw [h.1]; simp [List.filter_cons, hadm]; omega
        · have ha' : a ≠ t.sender := fun e => ha e.symm
          rw [h.2 a ha']
          have : (t.sender == a) = false := by simpa using ha
          simp [List.filter_cons, this]

/-! ## Non-vacuity: the same bytes twice in one block — second is refused with "invalid sequence" -/
example : (stepEth (stepEth exS exT exX).1 exT exX).2.cls = .anteRejected "sdk/3" := by decide +kernel

end Evermint.Block
