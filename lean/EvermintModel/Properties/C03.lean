import EvermintModel.Proofs.CDb
/-!
# C03 — reverted EVM call frames leave no trace, in any module

`W` is everything that lives in the branched context (all module stores, the event manager),
`J` the journaled fields.  All theorems are for **every** `W`, `J`, write function, nesting
depth and program — no bounds.

* `C03_revert_exact` — API level: after `id := Snapshot()`, *any* sequence of writes, nested
  snapshots and reverts to ids ≥ id, followed by `RevertToSnapshot(id)`, yields **exactly** the
  state right after the snapshot (stack, views, journaled fields): nothing made inside survives.
* `C03_calltree` — call-tree level (how `evm.Call/Create` use the StateDB): every frame is
  `snapshot; body; revert-if-failed`; the final world and journaled state equal those of the
  program with all failed frames erased, reverts never panic, and `commit` keeps exactly the
  effects of the successful frames in program order.
-/
namespace Evermint.CDbG
variable {W J : Type}

/-! ## API level -/

/-- the marked snapshot `(mid, sv)` sits on top of the untouched older stack `b0`, below a front
of newer snapshots; its own view may have changed -/
def Framed (mid : Int) (sv : J) (b0 : List (Snap W J)) (o : W) (s : CDb W J) : Prop :=
  ∃ front v, s.stack = front ++ ({ id := mid, view := v, saved := sv } : Snap W J) :: b0 ∧ s.Ok ∧ s.orig = o

/-- inner operations never revert below the marked snapshot (well-bracketedness) -/
def InnerOk (mid : Int) : List (Op W J) → Prop
  | [] => True
  | .revert id' :: os => mid ≤ id' ∧ InnerOk mid os
  | _ :: os => InnerOk mid os

theorem framed_upd {mid sv b0 o} (s : CDb W J) (h : W → J → W × J) (hf : Framed mid sv b0 o s) :
    Framed mid sv b0 o (s.upd h) := by
  obtain ⟨front, v, hst, hok, ho⟩ := hf
  cases front with
  | nil =>
    simp only [CDb.stack, List.nil_append, List.cons.injEq] at hst
    obtain ⟨h1, h2⟩ := hst
    refine ⟨[], (h s.top.view s.j).1, ?_, upd_ok s h hok, ho⟩
    rw [upd_stack, h2, h1]; rfl
  | cons x f =>
    simp only [CDb.stack, List.cons_append, List.cons.injEq] at hst
    obtain ⟨h1, h2⟩ := hst
    refine ⟨{ x with view := (h s.top.view s.j).1 } :: f, v, ?_, upd_ok s h hok, ho⟩
    rw [upd_stack, h2, h1]; rfl

theorem framed_snapshot {mid sv b0 o} (s : CDb W J) (hf : Framed mid sv b0 o s) :
    Framed mid sv b0 o s.snapshot.1 := by
  obtain ⟨front, v, hst, hok, ho⟩ := hf
  refine ⟨s.snapshot.1.top :: front, v, ?_, snapshot_ok s hok, ho⟩
  show s.snapshot.1.top :: s.snapshot.1.below = _
  simp only [CDb.snapshot, List.cons_append]
  rw [← hst]; rfl

theorem framed_revert {mid sv b0 o} (s s' : CDb W J) (id' : Int) (hle : mid ≤ id')
    (hf : Framed mid sv b0 o s) (hr : s.revert id' = some s') : Framed mid sv b0 o s' := by
  obtain ⟨front, v, hst, hok, ho⟩ := hf
  have hok' := revert_ok s s' id' hok hr
  unfold CDb.revert at hr
  split at hr
  · cases hr
  · split at hr
    · cases hr
    · rename_i t b heq
      injection hr with hr; subst hr
      obtain ⟨pre, t0, p, rest, h1, h2, h3, h4⟩ := revertGo_some id' s.below s.top t b heq
      have hst' : pre ++ t0 :: p :: rest = front ++ ({ id := mid, view := v, saved := sv } : Snap W J) :: b0 := by
        rw [← h1]; exact hst
      rcases List.append_eq_append_iff.mp hst' with ⟨a, ha1, ha2⟩ | ⟨c, hc1, hc2⟩
      · -- front = pre ++ a,  t0 :: p :: rest = a ++ m :: b0
        cases a with
        | nil =>
          simp only [List.nil_append, List.cons.injEq] at ha2
          refine ⟨[], p.view, ?_, hok', ho⟩
          show t :: b = _
          rw [h4, h2, ha2.1, ha2.2]; rfl
        | cons x a' =>
          simp only [List.cons_append, List.cons.injEq] at ha2
          refine ⟨{ t0 with view := p.view } :: a', v, ?_, hok', ho⟩
          show t :: b = _
          rw [h4, h2, List.cons_append, ha2.2]
      · -- pre = front ++ c,  m :: b0 = c ++ t0 :: p :: rest
        cases c with
        | nil =>
          simp only [List.nil_append, List.cons.injEq] at hc2
          refine ⟨[], p.view, ?_, hok', ho⟩
          show t :: b = _
          rw [h4, h2, ← hc2.1, ← hc2.2]; rfl
        | cons y c' =>
          exfalso
          simp only [List.cons_append, List.cons.injEq] at hc2
          -- the marked snapshot is `y`; `t0` lies strictly below it, so its id is smaller
          have hall : IdsOk (front ++ ({ id := mid, view := v, saved := sv } : Snap W J) :: b0) := by rw [← hst]; exact hok
          have hm : IdsOk (({ id := mid, view := v, saved := sv } : Snap W J) :: b0) := IdsOk.suffix front _ hall
          have hmid : mid = (b0.length : Int) - 1 := hm.1
          have ht0 : IdsOk (t0 :: p :: rest) := by
            have : IdsOk (c' ++ t0 :: p :: rest) := by rw [← hc2.2]; exact hm.2
            exact IdsOk.suffix c' _ this
          have hid : t0.id = ((p :: rest).length : Int) - 1 := ht0.1
          have hlen : b0.length = c'.length + (rest.length + 2) := by
            rw [hc2.2]; simp only [List.length_append, List.length_cons]
          simp only [List.length_cons] at hid
          omega

theorem framed_run {mid sv b0 o} : ∀ (ops : List (Op W J)) (s s' : CDb W J),
    InnerOk mid ops → Framed mid sv b0 o s → s.run ops = some s' → Framed mid sv b0 o s'
  | [], s, s', _, hf, hr => by simp only [CDb.run] at hr; injection hr with hr; subst hr; exact hf
  | .upd h :: os, s, s', hi, hf, hr => by
    simp only [CDb.run, CDb.step] at hr
    exact framed_run os _ s' hi (framed_upd s h hf) hr
  | .snapshot :: os, s, s', hi, hf, hr => by
    simp only [CDb.run, CDb.step] at hr
    exact framed_run os _ s' hi (framed_snapshot s hf) hr
  | .revert id' :: os, s, s', hi, hf, hr => by
    simp only [CDb.run, CDb.step] at hr
    split at hr
    · cases hr
    · rename_i s1 h1
      exact framed_run os s1 s' hi.2 (framed_revert s s1 id' hi.1 hf h1) hr

/-- **C03, API level.**  Whatever happens after `Snapshot()` — any writes by any module, any
nesting of further snapshots and reverts that do not go below it — `RevertToSnapshot(id)`
succeeds and restores *exactly* the state right after the snapshot. -/
theorem C03_revert_exact (s s2 : CDb W J) (ops : List (Op W J)) (hs : s.Ok)
    (hin : InnerOk s.snapshot.2 ops) (hrun : s.snapshot.1.run ops = some s2) :
    s2.revert s.snapshot.2 = some s.snapshot.1 := by
  have h0 : Framed s.snapshot.2 s.j (s.top :: s.below) s.orig s.snapshot.1 :=
    ⟨[], s.top.view, rfl, snapshot_ok s hs, rfl⟩
  obtain ⟨front, v, hst, hok, ho⟩ := framed_run ops _ s2 hin h0 hrun
  have hgo := revertGo_frame ({ id := s.snapshot.2, view := v, saved := s.j } : Snap W J) s.top s.below
    front s2.top s2.below hst hok
  unfold CDb.revert
  have hnn : ¬ s.snapshot.2 < 0 := by simp [CDb.snapshot]
  simp only [hnn, if_false]
  simp only at hgo
  rw [hgo]
  simp only [CDb.snapshot] at ho ⊢
  rw [ho]

/-- corollary: every observation (any getter, any module query through the current context, the
pending events, the journaled fields) is the same as right after the snapshot -/
theorem C03_no_trace {α : Type} (obs : CDb W J → α) (s s2 s3 : CDb W J) (ops : List (Op W J)) (hs : s.Ok)
    (hin : InnerOk s.snapshot.2 ops) (hrun : s.snapshot.1.run ops = some s2)
    (hrev : s2.revert s.snapshot.2 = some s3) : obs s3 = obs s.snapshot.1 := by
  rw [C03_revert_exact s s2 ops hs hin hrun] at hrev
  injection hrev with h; rw [h]

/-- the same id can be reverted again later (ids stay valid across reverts to inner ids) -/
theorem C03_ids_stable (s s2 s4 : CDb W J) (ops ops' : List (Op W J)) (hs : s.Ok)
    (hin : InnerOk s.snapshot.2 ops) (hrun : s.snapshot.1.run ops = some s2)
    (hin' : InnerOk s.snapshot.2 ops') (hrun' : s.snapshot.1.run ops' = some s4) :
    s2.revert s.snapshot.2 = s4.revert s.snapshot.2 := by
  rw [C03_revert_exact s s2 ops hs hin hrun, C03_revert_exact s s4 ops' hs hin' hrun']

/-! ## Call-tree level -/

/-- a program as the EVM runs it: plain state operations and call frames; a frame is
`snapshot; body; RevertToSnapshot(id) if it failed` -/
inductive Node (W J : Type) where
  | op (h : W → J → W × J)
  | call (body : List (Node W J)) (failed : Bool)

mutual
  /-- what the Go code does -/
  def execNode (s : CDb W J) : Node W J → Option (CDb W J)
    | .op h => some (s.upd h)
    | .call body failed =>
      match execList s.snapshot.1 body with
      | none => none
      | some s2 => if failed then s2.revert s.snapshot.2 else some s2
  def execList (s : CDb W J) : List (Node W J) → Option (CDb W J)
    | [] => some s
    | n :: ns => match execNode s n with
      | none => none
      | some s' => execList s' ns
end

mutual
  /-- the specification: failed frames are erased -/
  def effNode (wj : W × J) : Node W J → W × J
    | .op h => h wj.1 wj.2
    | .call body failed => if failed then wj else effList wj body
  def effList (wj : W × J) : List (Node W J) → W × J
    | [] => wj
    | n :: ns => effList (effNode wj n) ns
end

/-- `s'` extends `s`: nothing at or below `s`'s top was touched except the view of that top -/
def Ext (s s' : CDb W J) : Prop :=
  ∃ front v, s'.stack = front ++ { s.top with view := v } :: s.below ∧ s'.Ok ∧ s'.orig = s.orig

theorem Ext.trans {s s1 s2 : CDb W J} (h1 : Ext s s1) (h2 : Ext s1 s2) : Ext s s2 := by
  obtain ⟨f1, v1, e1, _, o1⟩ := h1
  obtain ⟨f2, v2, e2, ok2, o2⟩ := h2
  cases f1 with
  | nil =>
    simp only [CDb.stack, List.nil_append, List.cons.injEq] at e1
    refine ⟨f2, v2, ?_, ok2, o2.trans o1⟩
    rw [e2, e1.1, e1.2]
  | cons x f =>
    simp only [CDb.stack, List.cons_append, List.cons.injEq] at e1
    refine ⟨f2 ++ { x with view := v2 } :: f, v1, ?_, ok2, o2.trans o1⟩
    rw [e2, e1.1, e1.2]; simp

mutual
  theorem execNode_spec (s : CDb W J) (hs : s.Ok) : (n : Node W J) →
      ∃ s', execNode s n = some s' ∧ Ext s s' ∧ (s'.cur, s'.j) = effNode (s.cur, s.j) n
    | .op h => by
      refine ⟨s.upd h, rfl, ⟨[], (h s.top.view s.j).1, rfl, upd_ok s h hs, rfl⟩, ?_⟩
      simp [effNode, CDb.upd, CDb.cur]
    | .call body failed => by
      have hs1 : s.snapshot.1.Ok := snapshot_ok s hs
      obtain ⟨s2, h2, hext, hobs⟩ := execList_spec s.snapshot.1 hs1 body
      have hext1 : Ext s s.snapshot.1 := ⟨[s.snapshot.1.top], s.top.view, rfl, hs1, rfl⟩
      cases failed with
      | false =>
        refine ⟨s2, ?_, hext1.trans hext, ?_⟩
        · simp [execNode, h2]
        · simp only [effNode]; rw [hobs]; rfl
      | true =>
        obtain ⟨front, v, hst, hok, ho2⟩ := hext
        have hgo := revertGo_frame ({ s.snapshot.1.top with view := v } : Snap W J) s.top s.below
          front s2.top s2.below hst hok
        have hnn : ¬ s.snapshot.2 < 0 := by simp [CDb.snapshot]
        have hrev : s2.revert s.snapshot.2 = some s.snapshot.1 := by
          unfold CDb.revert
          simp only [hnn, if_false]
          have : ({ s.snapshot.1.top with view := v } : Snap W J).id = s.snapshot.2 := rfl
          rw [this] at hgo
          rw [hgo]
          simp only [CDb.snapshot] at ho2 ⊢
          rw [ho2]
        refine ⟨s.snapshot.1, ?_, hext1, ?_⟩
        · simp [execNode, h2, hrev]
        · simp [effNode, CDb.snapshot, CDb.cur]
  theorem execList_spec (s : CDb W J) (hs : s.Ok) : (ns : List (Node W J)) →
      ∃ s', execList s ns = some s' ∧ Ext s s' ∧ (s'.cur, s'.j) = effList (s.cur, s.j) ns
    | [] => ⟨s, rfl, ⟨[], s.top.view, rfl, hs, rfl⟩, rfl⟩
    | n :: ns => by
      obtain ⟨s1, h1, e1, o1⟩ := execNode_spec s hs n
      have hok1 : s1.Ok := by obtain ⟨_, _, _, h, _⟩ := e1; exact h
      obtain ⟨s2, h2, e2, o2⟩ := execList_spec s1 hok1 ns
      refine ⟨s2, ?_, e1.trans e2, ?_⟩
      · simp [execList, h1, h2]
      · simp only [effList]; rw [← o1]; exact o2
end

/-- **C03, call-tree level.**  For every program (any nesting depth, any writes by any module):
execution never panics, and the committed world and journaled state are exactly those of the
program with every failed frame erased — failed frames leave no trace, successful ones are all
kept, in program order. -/
theorem C03_calltree (w : W) (j0 : J) (prog : List (Node W J)) :
    ∃ s', execList (new w j0) prog = some s' ∧
      (s'.commitWorld, s'.j) = effList (w, j0) prog ∧ s'.orig = w := by
  obtain ⟨s', h, hext, hobs⟩ := execList_spec (new w j0) (new_ok w j0) prog
  obtain ⟨_, _, _, _, ho⟩ := hext
  exact ⟨s', h, hobs, ho⟩

/-- when the *whole* transaction body fails (top-level frame reverted), nothing of it remains:
only what was done outside the frame (nonce bump, gas refund credit) is left -/
theorem C03_vmerr_residue (w : W) (j0 : J) (pre post body : List (Node W J)) :
    ∃ s', execList (new w j0) (pre ++ [.call body true] ++ post) = some s' ∧
      (s'.commitWorld, s'.j) = effList (effList (w, j0) pre) post := by
  obtain ⟨s', h, hobs, _⟩ := C03_calltree w j0 (pre ++ [.call body true] ++ post)
  refine ⟨s', h, ?_⟩
  rw [hobs]
  have happ : ∀ (a b : List (Node W J)) (x : W × J), effList x (a ++ b) = effList (effList x a) b := by
    intro a; induction a with
    | nil => intro b x; rfl
    | cons n ns ih => intro b x; simp only [List.cons_append, effList]; exact ih b _
  rw [happ, happ]
  simp [effList, effNode]

/-! ## Non-vacuity: the theorem distinguishes a faulty implementation.
`revertAliased` forgets to re-branch (keeps the dirty view): the exactness statement is false for it. -/
def CDb.revertAliased (s : CDb Nat Nat) (id : Int) : Option (CDb Nat Nat) :=
  match s.revert id with
  | some s' => some { s' with top := { s'.top with view := s.top.view } }
  | none => none

example :
    let s := new (W := Nat) (J := Nat) 0 0
    let s1 := s.snapshot.1
    let s2 := s1.upd (fun w j => (w + 5, j + 1))
    (s2.revert 0).map (fun r => (r.cur, r.j)) = some (0, 0) ∧
    (s2.revertAliased 0).map (fun r => (r.cur, r.j)) = some (5, 0) := by decide

example : (execList (new (W := Nat) (J := Nat) 0 0)
    [.op (fun w j => (w+1, j)), .call [.op (fun w j => (w+10, j+1)), .call [.op (fun w j => (w+100, j))] false] true,
     .call [.op (fun w j => (w+1000, j+2))] false]).map (fun r => (r.commitWorld, r.j)) = some (1001, 2) := by decide

end Evermint.CDbG
