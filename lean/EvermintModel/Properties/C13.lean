import EvermintModel.Properties.C06
/-!
# C13 — per-block receipts, indices, cumulative gas (and bloom) are mutually consistent

The transient per-block bookkeeping (`txCount`, per-tx gas, per-tx log count) is an invariant-
carrying state; the theorems hold for every block content: any number and order of Ethereum
transactions of every outcome class (Cosmos transactions do not touch this bookkeeping).
Bloom filters: see `Properties/C13Bloom.lean` (model `Model/Bloom.lean`).
-/
namespace Evermint.Block

def sumL (l : List Nat) : Nat := l.foldl (· + ·) 0

theorem foldl_add_init (l : List Nat) (a : Nat) : l.foldl (· + ·) a = a + l.foldl (· + ·) 0 := by
  induction l generalizing a with
  | nil => simp
  | cons x xs ih => simp only [List.foldl_cons]; rw [ih (a + x), ih (0 + x)]; omega

theorem sumL_append (l : List Nat) (a : Nat) : sumL (l ++ [a]) = sumL l + a := by
  simp [sumL, List.foldl_append]

theorem sumTake_length (l : List Nat) : sumTake l l.length = sumL l := by simp [sumTake, sumL]

theorem listSet_append_last (l : List Nat) (a v : Nat) : listSet (l ++ [a]) l.length v = l ++ [v] := by
  simp [listSet]

/-- both transient tables have exactly one slot per admitted transaction -/
def Inv (s : BState) : Prop := s.gasSlots.length = s.txCount ∧ s.logSlots.length = s.txCount

def totalGas (s : BState) : Nat := sumL s.gasSlots
def totalLogs (s : BState) : Nat := sumL s.logSlots

theorem inv_newBlock (s : BState) (b : Nat) (m : Int) (r : Nat) :
    Inv (stepItem s (.newBlock b m r)).1 := by simp [Inv, stepItem]

/-- the invariant is preserved by every transaction of every outcome class -/
theorem inv_step (s : BState) (t : EthTx) (x : Exec) (hi : Inv s) : Inv (stepEth s t x).1 := by
  rcases stepEth_cases s t x with ⟨_, h⟩ | ⟨_, _, h⟩ | ⟨_, _, code, _, _, _, h⟩ | ⟨_, _, _, _, h⟩ | ⟨_, _, _, _, _, h⟩ |
    ⟨_, _, _, _, _, _, h⟩ | ⟨_, _, _, _, _, _, h⟩ <;> rw [h]
  · exact hi
  · exact hi
  · exact hi
  · simp [failedOut, anteState, Inv, hi.1, hi.2]
  · simp [failedOut, anteState, Inv, hi.1, hi.2]
  · simp [failedOut, anteState, Inv, hi.1, hi.2]
  · simp [committedOut, anteState, Inv, listSet, hi.1, hi.2]

/-- **transaction index**: the transactions that reached execution are numbered by the count of
earlier ones in the block (so 0,1,2,… in block order); refused / dropped ones get no index and do
not consume one -/
theorem C13_txIndex (s : BState) (t : EthTx) (x : Exec) :
    (admitted (stepEth s t x).2.cls = true →
      (stepEth s t x).2.anteIdx = some s.txCount ∧ (stepEth s t x).1.txCount = s.txCount + 1) ∧
    (admitted (stepEth s t x).2.cls = false →
      (stepEth s t x).2.anteIdx = none ∧ (stepEth s t x).2.rcptIdx = none ∧ (stepEth s t x).1.txCount = s.txCount) := by
  rcases stepEth_cases s t x with ⟨_, h⟩ | ⟨_, _, h⟩ | ⟨_, _, code, _, _, _, h⟩ | ⟨_, _, _, _, h⟩ | ⟨_, _, _, _, _, h⟩ |
    ⟨_, _, _, _, _, _, h⟩ | ⟨_, _, _, _, _, _, h⟩ <;> rw [h]
  · simp [noOut, admitted]
  · simp [noOut, admitted]
  · simp [noOut, admitted]
  · simp [failedOut, noOut, admitted, anteState]
  · simp [failedOut, noOut, admitted, anteState]
  · simp [failedOut, noOut, admitted, anteState]
  · by_cases hv : x.vmErr = true <;> simp [committedOut, admitted, anteState, hv]

/-- the receipt's index equals the ante event's index whenever a receipt exists -/
theorem C13_receipt_index (s : BState) (t : EthTx) (x : Exec)
    (hc : (stepEth s t x).2.cls = .ok ∨ (stepEth s t x).2.cls = .vmerr) :
    (stepEth s t x).2.rcptIdx = some s.txCount ∧ (stepEth s t x).2.anteIdx = some s.txCount := by
  rcases stepEth_cases s t x with ⟨_, h⟩ | ⟨_, _, h⟩ | ⟨_, _, code, _, _, _, h⟩ | ⟨_, _, _, _, h⟩ | ⟨_, _, _, _, _, h⟩ |
    ⟨_, _, _, _, _, _, h⟩ | ⟨_, _, _, _, _, _, h⟩ <;> rw [h] at hc ⊢
  all_goals first
    | (simp [noOut, failedOut] at hc)
    | (simp [committedOut])

/-- **log index**: the first log of a committed transaction is numbered by the total number of logs
of all earlier transactions of the block (consecutive, no gaps, no repeats), and the block's running
total grows by exactly this transaction's log count — and by nothing for failed / refused ones -/
theorem C13_logIndex (s : BState) (t : EthTx) (x : Exec) (hi : Inv s) :
    (((stepEth s t x).2.cls = .ok ∨ (stepEth s t x).2.cls = .vmerr) →
      (stepEth s t x).2.logIdx = (if x.nLogs > 0 then some (totalLogs s) else none) ∧
      totalLogs (stepEth s t x).1 = totalLogs s + x.nLogs) ∧
    (¬ ((stepEth s t x).2.cls = .ok ∨ (stepEth s t x).2.cls = .vmerr) →
      (stepEth s t x).2.logIdx = none ∧ totalLogs (stepEth s t x).1 = totalLogs s) := by
  rcases stepEth_cases s t x with ⟨_, h⟩ | ⟨_, _, h⟩ | ⟨_, _, code, _, _, _, h⟩ | ⟨_, _, _, _, h⟩ | ⟨_, _, _, _, _, h⟩ |
    ⟨_, _, _, _, _, _, h⟩ | ⟨_, _, _, _, _, _, h⟩ <;> rw [h]
  · simp [noOut]
  · simp [noOut, totalLogs]
  · simp [noOut, totalLogs]
  · simp [failedOut, noOut, anteState, totalLogs, sumL_append]
  · simp [failedOut, noOut, anteState, totalLogs, sumL_append]
  · simp [failedOut, noOut, anteState, totalLogs, sumL_append]
  · have hlen : s.txCount = s.logSlots.length := hi.2.symm
    constructor
    · intro _
      simp only [committedOut, anteState, totalLogs]
      rw [hlen, sumTake_length, listSet_append_last, sumL_append]
      exact ⟨rfl, rfl⟩
    · intro hn; exfalso; apply hn
      by_cases hv : x.vmErr = true <;> simp [committedOut, hv]

/-- **cumulative gas**: a receipt's cumulative gas is its own gas used plus the receipt gas of every
earlier Ethereum transaction of the block; the running total grows by the receipt gas of each
admitted transaction (its real gas used if committed, its full gas limit if it failed) -/
theorem C13_cumulativeGas (s : BState) (t : EthTx) (x : Exec) (hi : Inv s) :
    (((stepEth s t x).2.cls = .ok ∨ (stepEth s t x).2.cls = .vmerr) →
      (stepEth s t x).2.cumGas = some (x.gasUsed + totalGas s)) ∧
    totalGas (stepEth s t x).1 = totalGas s + receiptGas t x (stepEth s t x).2.cls := by
  rcases stepEth_cases s t x with ⟨_, h⟩ | ⟨_, _, h⟩ | ⟨_, _, code, _, _, _, h⟩ | ⟨_, _, _, _, h⟩ | ⟨_, _, _, _, _, h⟩ |
    ⟨_, _, _, _, _, _, h⟩ | ⟨_, _, _, _, _, _, h⟩ <;> rw [h]
  · simp [noOut, receiptGas]
  · simp [noOut, receiptGas, totalGas]
  · simp [noOut, receiptGas, totalGas]
  · simp [failedOut, noOut, anteState, totalGas, sumL_append, receiptGas]
  · simp [failedOut, noOut, anteState, totalGas, sumL_append, receiptGas]
  · simp [failedOut, noOut, anteState, totalGas, sumL_append, receiptGas]
  · have hlen : s.txCount = s.gasSlots.length := hi.1.symm
    simp only [committedOut, anteState, totalGas]
    rw [hlen, sumTake_length, listSet_append_last, sumL_append]
    by_cases hv : x.vmErr = true <;> simp [hv, receiptGas]

/-- receipt status is 1 exactly when no VM error occurred -/
theorem C13_status (s : BState) (t : EthTx) (x : Exec)
    (hc : (stepEth s t x).2.cls = .ok ∨ (stepEth s t x).2.cls = .vmerr) :
    ((stepEth s t x).2.status = some 1 ↔ x.vmErr = false) ∧ ((stepEth s t x).2.cls = .ok ↔ x.vmErr = false) := by
  rcases stepEth_cases s t x with ⟨_, h⟩ | ⟨_, _, h⟩ | ⟨_, _, code, _, _, _, h⟩ | ⟨_, _, _, _, h⟩ | ⟨_, _, _, _, _, h⟩ |
    ⟨_, _, _, _, _, _, h⟩ | ⟨_, _, _, _, _, _, h⟩ <;> rw [h] at hc ⊢
  all_goals first
    | (simp [noOut, failedOut] at hc)
    | (cases hv : x.vmErr <;> simp [committedOut, hv])

/-- a created-contract address is reported exactly when a creation succeeded (that it equals
CREATE(sender, nonce) is checked by E-block on the real event) -/
theorem C13_contract (s : BState) (t : EthTx) (x : Exec) :
    (stepEth s t x).2.contract = some true ↔
      (t.create = true ∧ (stepEth s t x).2.cls = .ok) := by
  rcases stepEth_cases s t x with ⟨_, h⟩ | ⟨_, _, h⟩ | ⟨_, _, code, _, _, _, h⟩ | ⟨_, _, _, _, h⟩ | ⟨_, _, _, _, _, h⟩ |
    ⟨_, _, _, _, _, _, h⟩ | ⟨_, _, _, _, _, _, h⟩ <;> rw [h]
  · simp [noOut]
  · simp [noOut]
  · simp [noOut]
  · simp [failedOut, noOut]
  · simp [failedOut, noOut]
  · simp [failedOut, noOut]
  · cases hv : x.vmErr <;> cases hc : t.create <;> simp [committedOut, hv, hc]

/-- over a whole block (any list of transactions) the invariant holds throughout, hence all of the
above at every position -/
theorem C13_inv_block : ∀ (is : List Item) (s : BState), Inv s → Inv (runItems s is).1
  | [], _, hi => hi
  | .tx t x :: is, s, hi => C13_inv_block is _ (inv_step s t x hi)
  | .newBlock b m r :: is, s, _ => C13_inv_block is _ (inv_newBlock s b m r)

/-- end of block never finds a receipt missing: exactly `txCount` receipts exist (no panic in the
EVM end-blocker; also used by C20) -/
theorem C13_endBlock_total (is : List Item) (s : BState) (hi : Inv s) :
    (runItems s is).1.gasSlots.length = (runItems s is).1.txCount := (C13_inv_block is s hi).1

/-! ## Non-vacuity: two log-emitting txs in one block — the second starts at the first's count -/
def exS2 := (stepEth exS exT exX).1
def exT2 : EthTx := { exT with nonce := 1 }
example : (stepEth exS exT exX).2.logIdx = some 0 ∧ (stepEth exS2 exT2 exX).2.logIdx = some 2 ∧
    (stepEth exS2 exT2 exX).2.rcptIdx = some 1 ∧
    (stepEth exS2 exT2 exX).2.cumGas = some (2 * (61408 - 12281)) := by decide +kernel

end Evermint.Block
