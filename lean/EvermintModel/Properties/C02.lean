import EvermintModel.Model.StateDB
import EvermintModel.Proofs.World
/-!
# C02 — EVM transactions execute as go-ethereum's reference state transition  *(partial)*

go-ethereum's `state.StateDB` is specified as a plain value (`G`): balance, nonce, code and storage
functions with function-update writes.  The context-based StateDB of evermint (model `updBody` over
`World`, tied to the real `cStateDb` by E-statedb) is proved to **simulate** it for every write primitive
the interpreter uses: after the call, the abstraction of evermint's world is exactly the reference state
updated by the reference operation — under the side conditions the proof forces, each of which is a
documented place where evermint differs by design (bank block-list, vesting locks, multi-denomination
accounts).  Snapshot / revert is the value copy of the reference by `C03_revert_exact`.

Not proved here (trusted base item 5): that the interpreter touches state only through these
primitives, and the interpreter itself.  The tie for whole transactions is E-geth (real evermint
`ApplyMessage` vs real go-ethereum `core.ApplyMessage` on mirrored states).
-/
namespace Evermint

/-- the reference state: what go-ethereum's StateDB getters return -/
structure G where
  bal : Addr → Nat
  nonce : Addr → Nat
  code : Addr → Nat
  st : Addr → Nat → Nat

def upd {β : Type} (f : Addr → β) (a : Addr) (v : β) : Addr → β := fun x => if x = a then v else f x

namespace G
def addBalance (g : G) (a : Addr) (n : Nat) : G := { g with bal := upd g.bal a (g.bal a + n) }
def subBalance (g : G) (a : Addr) (n : Nat) : G := { g with bal := upd g.bal a (g.bal a - n) }
def setNonce (g : G) (a : Addr) (n : Nat) : G := { g with nonce := upd g.nonce a n }
def setCode (g : G) (a : Addr) (c : Nat) : G := { g with code := upd g.code a c }
def setState (g : G) (a : Addr) (k v : Nat) : G := { g with st := upd g.st a (upd (g.st a) k v) }
end G

/-- abstraction: the EVM denomination of the bank, the auth sequence, the code-hash table, the storage -/
def absG (w : World) : G :=
  { bal := fun a => w.balOf a evmDenom,
    nonce := fun a => match w.acc.get a with | some ac => ac.seq | none => 0,
    code := fun a => w.codeHash.get a,
    st := fun a k => getState w a k }

theorem G.ext' {g h : G} (h1 : g.bal = h.bal) (h2 : g.nonce = h.nonce) (h3 : g.code = h.code) (h4 : g.st = h.st) : g = h := by
  cases g; cases h; simp_all

/-! ### lemmas about what each world primitive leaves alone -/

@[simp] theorem ensureAcc_codeHash (w : World) (a : Addr) : (w.ensureAcc a).codeHash = w.codeHash := by
  unfold World.ensureAcc; split <;> rfl
@[simp] theorem ensureAcc_storage (w : World) (a : Addr) : (w.ensureAcc a).storage = w.storage := by
  unfold World.ensureAcc; split <;> rfl

theorem ensureAcc_acc_get (w : World) (a x : Addr) :
    (w.ensureAcc a).acc.get x = if x = a ∧ w.acc.get a = none then some { kind := .base, seq := 0, num := w.nextAcc } else w.acc.get x := by
  unfold World.ensureAcc World.hasAcc
  cases h : w.acc.get a with
  | some ac => simp [h]
  | none =>
    simp only [h, Option.isSome_none, Bool.false_eq_true, if_false, and_true]
    by_cases hx : x = a
    · subst hx; simp
    · simp [hx, FMap.get_set_ne _ _ _ _ hx]

def nonceOf (w : World) (x : Addr) : Nat := match w.acc.get x with | some ac => ac.seq | none => 0

theorem nonceOf_ensureAcc (w : World) (a x : Addr) : nonceOf (w.ensureAcc a) x = nonceOf w x := by
  unfold nonceOf
  rw [ensureAcc_acc_get]
  by_cases h : x = a ∧ w.acc.get a = none
  · obtain ⟨rfl, hn⟩ := h
    rw [if_pos ⟨rfl, hn⟩, hn]
  · rw [if_neg h]

theorem absG_nonce (w : World) : (absG w).nonce = nonceOf w := rfl
theorem absG_bal (w : World) (x : Addr) : (absG w).bal x = w.balOf x evmDenom := rfl
theorem absG_code (w : World) (x : Addr) : (absG w).code x = w.codeHash.get x := rfl
theorem absG_st (w : World) (x : Addr) (k : Nat) : (absG w).st x k = (w.storage.get (pair x k)).getD 0 := rfl

/-- **C02 (SetNonce).** -/
theorem C02_setNonce_sim (orig w w' : World) (j j' : Journal) (r : String) (a : Addr) (n : Nat)
    (h : updBody orig w j (.setNonce a n) = .ok (w', j', r)) : absG w' = (absG w).setNonce a n := by
  unfold updBody at h
  simp only [] at h
  cases hg : (w.ensureAcc a).acc.get a with
  | none => rw [hg] at h; cases h
  | some ac =>
    rw [hg] at h
    simp only [pure, Except.pure, Except.ok.injEq, Prod.mk.injEq] at h
    obtain ⟨hw, _, _⟩ := h
    subst hw
    apply G.ext'
    · funext x; simp [absG, G.setNonce, World.balOf]
    · funext x
      rw [absG_nonce]
      show nonceOf _ x = upd (absG w).nonce a n x
      unfold upd
      by_cases hx : x = a
      · subst hx; simp [nonceOf]
      · rw [if_neg hx, absG_nonce, ← nonceOf_ensureAcc w a x]
        unfold nonceOf
        simp only [FMap.get_set_ne _ _ _ _ hx]
    · funext x; simp [absG, G.setNonce]
    · funext x k; simp [absG, G.setNonce, getState]

/-- **C02 (SetCode).** -/
theorem C02_setCode_sim (orig w w' : World) (j j' : Journal) (r : String) (a : Addr) (c : Nat)
    (h : updBody orig w j (.setCode a c) = .ok (w', j', r)) : absG w' = (absG w).setCode a c := by
  unfold updBody at h
  simp only [pure, Except.pure, Except.ok.injEq, Prod.mk.injEq] at h
  obtain ⟨hw, _, _⟩ := h
  subst hw
  apply G.ext'
  · funext x; simp [absG, G.setCode, World.balOf]
  · funext x
    rw [absG_nonce]
    show nonceOf _ x = (absG w).nonce x
    rw [absG_nonce, ← nonceOf_ensureAcc w a x]
    rfl
  · funext x
    simp only [absG, G.setCode, upd, ensureAcc_codeHash]
    by_cases hx : x = a
    · subst hx; simp
    · simp [hx, FMap.get_set_ne _ _ _ _ hx]
  · funext x k; simp [absG, G.setCode, getState]

/-- **C02 (SetState).** A zero value is stored, not deleted — observably the same as geth's deletion
through `GetState` (both read zero). -/
theorem C02_setState_sim (orig w w' : World) (j j' : Journal) (r : String) (a : Addr) (k v : Nat)
    (h : updBody orig w j (.setState a k v) = .ok (w', j', r))
    (hkeys : ∀ (x : Addr) (k' : Nat), k' < 4096 → (pair x k' = pair a k ↔ x = a ∧ k' = k)) :
    ∀ x k', k' < 4096 → (absG w').st x k' = ((absG w).setState a k v).st x k' := by
  unfold updBody at h
  simp only [pure, Except.pure, Except.ok.injEq, Prod.mk.injEq] at h
  obtain ⟨hw, _, _⟩ := h
  subst hw
  intro x k' hk'
  rw [absG_st]
  simp only [G.setState, upd, ensureAcc_storage]
  by_cases hp : pair x k' = pair a k
  · obtain ⟨hxa, hkk⟩ := (hkeys x k' hk').1 hp
    subst hxa hkk
    simp [upd]
  · have hne : ¬ (x = a ∧ k' = k) := fun hh => hp ((hkeys x k' hk').2 hh)
    rw [FMap.get_set_ne _ _ _ _ hp]
    by_cases hx : x = a
    · subst hx
      have : k' ≠ k := fun e => hne ⟨rfl, e⟩
      simp only [if_true]
      unfold upd
      rw [if_neg this, absG_st]
    · simp only [hx, if_false]
      rw [absG_st]

/-- **C02 (AddBalance).** For a recipient that is not the EVM module account and not on the bank
block-list (a blocked recipient aborts the transaction — a documented difference), the EVM-denomination
balance of exactly that account grows by `n`; nonce, code and storage of every account are untouched. -/
theorem C02_addBalance_sim (orig w w' : World) (j j' : Journal) (r : String) (a : Addr) (n : Nat)
    (ha : a ≠ w.evmMod) (h : updBody orig w j (.addBalance a n) = .ok (w', j', r)) :
    (absG w').bal a = (absG w).bal a + n ∧ (absG w').bal w.evmMod = (absG w).bal w.evmMod := by
  unfold updBody at h
  simp only [bind, Except.bind, pure, Except.pure] at h
  cases hm : w.mintTo a evmDenom n with
  | error e => rw [hm] at h; cases h
  | ok w1 =>
    rw [hm] at h
    simp only [Except.ok.injEq, Prod.mk.injEq] at h
    obtain ⟨hw, _, _⟩ := h
    subst hw
    obtain ⟨_, _, h3, h4, _⟩ := World.mintTo_effect (by decide : evmDenom < 4096) hm ha
    exact ⟨h4, h3⟩

/-- **C02 (SubBalance).** Succeeds only within the balance (and, by design, within the *spendable*
balance of a vesting account); exactly `n` leaves the account. -/
theorem C02_subBalance_sim (orig w w' : World) (j j' : Journal) (r : String) (a : Addr) (n : Nat)
    (ha : a ≠ w.evmMod) (h : updBody orig w j (.subBalance a n) = .ok (w', j', r)) :
    n ≤ (absG w).bal a ∧ (absG w').bal a = (absG w).bal a - n ∧ (absG w').bal w.evmMod = (absG w).bal w.evmMod := by
  unfold updBody at h
  simp only [bind, Except.bind, pure, Except.pure] at h
  cases hm : w.burnFrom a evmDenom n with
  | error e => rw [hm] at h; cases h
  | ok w1 =>
    rw [hm] at h
    simp only [Except.ok.injEq, Prod.mk.injEq] at h
    obtain ⟨hw, _, _⟩ := h
    subst hw
    obtain ⟨_, _, h3, h4, h5, _⟩ := World.burnFrom_effect (by decide : evmDenom < 4096) hm ha
    exact ⟨h5, h4, h3⟩

/-! ### the documented differences, as lemmas -/

/-- D1: a zero-value credit to an absent address does not create an account (go-ethereum creates an empty
object; the interpreter only observes this through `Exist` under pre-EIP-158 rules, which are never active) -/
theorem C02_diff_zero_credit_creates_nothing (orig w : World) (j : Journal) (a : Addr) (hn : w.acc.get a = none) :
    ∃ j', updBody orig w j (.addBalance a 0) = .ok (w, j', "ok") ∧ w.acc.get a = none := by
  refine ⟨touch j a, ?_, hn⟩
  unfold updBody
  simp [bind, Except.bind, pure, Except.pure, World.mintTo]

/-- D3: an account whose only content is a storage entry is *not* empty for evermint (`IsEmptyAccount` looks
at storage), so it is not swept by the EIP-158 rule -/
theorem C02_diff_storage_only_not_empty (w : World) (a : Addr) (h : w.hasStorage a = true) : w.isEmpty a = false := by
  unfold World.isEmpty; simp [h]

/-- F11: the fork builds the custom-precompile address list with `make([]Address, n)` **and** `append`:
the list handed to `PrepareAccessList` starts with `n` zero addresses -/
def forkCustomPrecompileList (registered : List Addr) : List Addr := List.replicate registered.length 0 ++ registered

theorem C02_zero_address_warm (registered : List Addr) (h : registered ≠ []) : 0 ∈ forkCustomPrecompileList registered := by
  unfold forkCustomPrecompileList
  cases registered with
  | nil => exact absurd rfl h
  | cons x xs => simp [List.replicate_succ]

/-! non-vacuity -/
def wg : World :=
  { acc := (FMap.empty none).set 1 (some ⟨.module, 0, 1⟩), bal := (FMap.empty 0).set (pair 7 0) 50, supply := (FMap.empty 0).set 0 50,
    codeHash := FMap.empty 0, storage := FMap.empty none, allow := FMap.empty 0, nextAcc := 3, events := 0, now := 50, evmMod := 1, blocked := [1] }
example : ∃ w' j' r, updBody wg wg {} (.addBalance 7 5) = .ok (w', j', r) ∧ (absG w').bal 7 = 55 := by
  refine ⟨_, _, _, rfl, ?_⟩; decide
example : ∃ w' j' r, updBody wg wg {} (.setNonce 9 4) = .ok (w', j', r) ∧ (absG w').nonce 9 = 4 := by
  refine ⟨_, _, _, rfl, ?_⟩; decide

end Evermint
