import EvermintModel.Model.Cpc
/-!
# C17 — custom-precompile registry integrity and exact EVM exposure
Invariants are proved for one step and lifted to every operation sequence by induction.
-/
namespace Evermint.Cpc
open Evermint

/-- index / metadata agreement: `idx d = some a` exactly when `a` stores an ERC-20 precompile for `d` -/
def IdxAgree (s : State) : Prop :=
  ∀ d a, s.idx.get d = some a ↔ ∃ dis, s.metas.get a = some ⟨tyErc20, d, dis⟩

/-- dynamic addresses handed out so far are below the sequence; nothing is stored at or above it -/
def SeqFresh (s : State) : Prop := ∀ n, s.seq ≤ n → s.metas.get (createAddr n) = none

def Inv (s : State) : Prop := IdxAgree s ∧ SeqFresh s

theorem addNew_spec (s s1 : State) (a : Nat) (m : Meta) (h : addNew s a m = some s1) :
    s.metas.get a = none ∧ s1 = { s with metas := s.metas.set a (some m) } := by
  unfold addNew at h
  cases hg : s.metas.get a with
  | some x => simp [hg] at h
  | none => simp [hg] at h; exact ⟨rfl, h.symm⟩

/-- what each op can do to the tables -/
theorem step_cases (s : State) (op : Op) :
    ((step s op).1 = s) ∨
    (∃ sender denom sp, op = .deployErc20 sender denom true sp ∧ s.whitelist.contains sender = true ∧ sp = true ∧
        s.idx.get denom = none ∧ s.metas.get (createAddr s.seq) = none ∧
        (step s op).1 = { s with seq := s.seq + 1, metas := s.metas.set (createAddr s.seq) (some ⟨tyErc20, denom, false⟩),
                                 idx := s.idx.set denom (some (createAddr s.seq)) }) ∨
    (∃ sender, op = .deployStaking sender true ∧ s.whitelist.contains sender = true ∧ s.metas.get stakingAddr = none ∧
        (step s op).1 = { s with metas := s.metas.set stakingAddr (some ⟨tyStaking, 0, false⟩) }) ∨
    (∃ v wl pv, op = .updateParams true pv v wl ∧ s.version ≤ v ∧ v ≤ latestVersion ∧ 0 < v ∧
        (step s op).1 = { s with version := v, whitelist := wl }) ∨
    (∃ a d m, op = .setDisabled a d ∧ s.metas.get a = some m ∧
        (step s op).1 = { s with metas := s.metas.set a (some { m with disabled := d }) }) := by
  cases op with
  | deployErc20 sender denom mv sp =>
    unfold step
    by_cases h1 : s.whitelist.contains sender = true
    · have h1' : sender ∈ s.whitelist := by simpa using h1
      cases mv with
      | false => left; simp [h1']
      | true =>
        cases h3 : s.idx.get denom with
        | some x => left; simp [h1', h3]
        | none =>
          cases sp with
          | false => left; simp [h1', h3]
          | true =>
            cases h5 : addNew { s with seq := s.seq + 1 } (createAddr s.seq) ⟨tyErc20, denom, false⟩ with
            | none => left; simp [h1', h3, h5]
            | some s1 =>
              right; left
              obtain ⟨hn, he⟩ := addNew_spec _ _ _ _ h5
              refine ⟨sender, denom, true, rfl, h1, rfl, h3, hn, ?_⟩
              simp [h1', h3, h5, he]
    · have h1' : ¬ sender ∈ s.whitelist := by simpa using h1
      left; simp [h1']
  | deployStaking sender mv =>
    unfold step
    by_cases h1 : s.whitelist.contains sender = true
    · have h1' : sender ∈ s.whitelist := by simpa using h1
      cases mv with
      | false => left; simp [h1']
      | true =>
        cases h5 : addNew s stakingAddr ⟨tyStaking, 0, false⟩ with
        | none => left; simp [h1', h5]
        | some s1 =>
          right; right; left
          obtain ⟨hn, he⟩ := addNew_spec _ _ _ _ h5
          exact ⟨sender, rfl, h1, hn, by simp [h1', h5, he]⟩
    · have h1' : ¬ sender ∈ s.whitelist := by simpa using h1
      left; simp [h1']
  | updateParams aok pv v wl =>
    unfold step
    cases aok with
    | false => left; simp
    | true =>
      by_cases h2 : (!pv || v = 0 || v > latestVersion) = true
      · left; simp only [Bool.not_true, Bool.false_eq_true, if_false]; rw [if_pos h2]
      · by_cases h3 : s.version > v
        · left; simp only [Bool.not_true, Bool.false_eq_true, if_false]; rw [if_neg h2, if_pos h3]
        · right; right; right; left
          simp only [Bool.or_eq_true, Bool.not_eq_true', decide_eq_true_eq, not_or] at h2
          refine ⟨v, wl, pv, ?_, by omega, by omega, by omega, ?_⟩
          · have : pv = true := by cases pv <;> simp_all
            rw [this]
          · simp only [Bool.not_true, Bool.false_eq_true, if_false]
            have h2' : ¬ ((!pv || decide (v = 0) || decide (v > latestVersion)) = true) := by
              simp only [Bool.or_eq_true, Bool.not_eq_true', decide_eq_true_eq, not_or]; exact h2
            rw [if_neg h2', if_neg h3]
  | setDisabled a d =>
    unfold step
    cases hg : s.metas.get a with
    | none => left; simp [hg]
    | some m => right; right; right; right; exact ⟨a, d, m, rfl, hg, by simp [hg]⟩

/-- **C17 (type never changes; entries are never overwritten or removed).** -/
theorem C17_type_immutable (s : State) (op : Op) (a : Nat) (m : Meta) (h : s.metas.get a = some m) :
    ∃ m', (step s op).1.metas.get a = some m' ∧ m'.ty = m.ty ∧ m'.denom = m.denom := by
  rcases step_cases s op with he | ⟨_, denom, _, _, _, _, _, hn, he⟩ | ⟨_, _, _, hn, he⟩ | ⟨_, _, _, _, _, _, _, he⟩ | ⟨a', d, m0, _, hg, he⟩
  · rw [he]; exact ⟨m, h, rfl, rfl⟩
  · rw [he]
    have : a ≠ createAddr s.seq := by intro e; rw [e, hn] at h; cases h
    exact ⟨m, by simp [KMap.get_set_ne _ _ _ _ this, h], rfl, rfl⟩
  · rw [he]
    have : a ≠ stakingAddr := by intro e; rw [e, hn] at h; cases h
    exact ⟨m, by simp [KMap.get_set_ne _ _ _ _ this, h], rfl, rfl⟩
  · rw [he]; exact ⟨m, h, rfl, rfl⟩
  · rw [he]
    by_cases e : a = a'
    · subst e
      rw [hg] at h; cases h
      exact ⟨{ m with disabled := d }, by simp, rfl, rfl⟩
    · exact ⟨m, by simp [KMap.get_set_ne _ _ _ _ e, h], rfl, rfl⟩

/-- **C17 (protocol version never decreases).** -/
theorem C17_version_monotone (s : State) (op : Op) : s.version ≤ (step s op).1.version := by
  rcases step_cases s op with he | ⟨_, _, _, _, _, _, _, _, he⟩ | ⟨_, _, _, _, he⟩ | ⟨_, _, _, _, hv, _, _, he⟩ | ⟨_, _, _, _, _, he⟩ <;> rw [he] <;> simp
  exact hv

/-- **C17 (only whitelisted senders add contracts; ERC-20 only for a denomination with positive supply
and no existing precompile).** -/
theorem C17_only_whitelisted_add (s : State) (op : Op) (a : Nat) (h0 : s.metas.get a = none)
    (h1 : ((step s op).1.metas.get a).isSome = true) :
    (∃ sender denom, op = .deployErc20 sender denom true true ∧ s.whitelist.contains sender = true ∧ s.idx.get denom = none ∧ a = createAddr s.seq) ∨
    (∃ sender, op = .deployStaking sender true ∧ s.whitelist.contains sender = true ∧ a = stakingAddr) := by
  rcases step_cases s op with he | ⟨sender, denom, sp, hop, hw, hsp, hi, _, he⟩ | ⟨sender, hop, hw, _, he⟩ | ⟨_, _, _, _, _, _, _, he⟩ | ⟨a', d, m0, _, hg, he⟩
  · rw [he, h0] at h1; cases h1
  · left
    rw [he] at h1
    by_cases e : a = createAddr s.seq
    · subst hsp; exact ⟨sender, denom, hop, hw, hi, e⟩
    · simp [KMap.get_set_ne _ _ _ _ e, h0] at h1
  · right
    rw [he] at h1
    by_cases e : a = stakingAddr
    · exact ⟨sender, hop, hw, e⟩
    · simp [KMap.get_set_ne _ _ _ _ e, h0] at h1
  · rw [he] at h1; simp [h0] at h1
  · rw [he] at h1
    by_cases e : a = a'
    · subst e; rw [hg] at h0; cases h0
    · simp [KMap.get_set_ne _ _ _ _ e, h0] at h1

theorem createAddr_inj {m n : Nat} (h : createAddr m = createAddr n) : m = n := by
  unfold createAddr at h; omega

theorem createAddr_ne_fixed (n : Nat) : createAddr n ≠ stakingAddr ∧ createAddr n ≠ bech32Addr := by
  unfold createAddr stakingAddr bech32Addr; constructor <;> omega

/-- one step preserves index/metadata agreement and freshness of the next dynamic address -/
theorem inv_step (s : State) (op : Op) (h : Inv s) : Inv (step s op).1 := by
  obtain ⟨hi, hf⟩ := h
  rcases step_cases s op with he | ⟨_, denom, _, _, _, _, hidx, hn, he⟩ | ⟨_, _, _, hn, he⟩ | ⟨_, _, _, _, _, _, _, he⟩ | ⟨a', d, m0, _, hg, he⟩
  · rw [he]; exact ⟨hi, hf⟩
  · rw [he]
    constructor
    · intro d a
      simp only []
      rw [KMap.get_set, KMap.get_set]
      by_cases hd : d = denom
      · subst hd
        simp only [if_true]
        constructor
        · intro h; cases h; exact ⟨false, by simp⟩
        · rintro ⟨dis, hm⟩
          by_cases ha : a = createAddr s.seq
          · rw [ha]
          · rw [if_neg ha] at hm
            have := (hi d a).2 ⟨dis, hm⟩
            rw [hidx] at this; cases this
      · simp only [if_neg hd]
        constructor
        · intro h
          obtain ⟨dis, hm⟩ := (hi d a).1 h
          have ha : a ≠ createAddr s.seq := by intro e; rw [e, hn] at hm; cases hm
          exact ⟨dis, by rw [if_neg ha]; exact hm⟩
        · rintro ⟨dis, hm⟩
          by_cases ha : a = createAddr s.seq
          · rw [if_pos ha] at hm
            simp only [Option.some.injEq, Meta.mk.injEq] at hm
            exact absurd hm.2.1.symm hd
          · rw [if_neg ha] at hm; exact (hi d a).2 ⟨dis, hm⟩
    · intro n hn'
      simp only [] at hn' ⊢
      have : createAddr n ≠ createAddr s.seq := by intro e; have := createAddr_inj e; omega
      rw [KMap.get_set_ne _ _ _ _ this]
      exact hf n (by omega)
  · rw [he]
    constructor
    · intro d a
      simp only []
      rw [KMap.get_set]
      by_cases ha : a = stakingAddr
      · subst ha
        simp only [if_true]
        constructor
        · intro h
          obtain ⟨dis, hm⟩ := (hi d stakingAddr).1 h
          rw [hn] at hm; cases hm
        · rintro ⟨dis, hm⟩
          simp only [Option.some.injEq, Meta.mk.injEq] at hm
          exact absurd hm.1 (by decide)
      · rw [if_neg ha]; exact hi d a
    · intro n hn'
      simp only []
      rw [KMap.get_set_ne _ _ _ _ (createAddr_ne_fixed n).1]
      exact hf n hn'
  · rw [he]; exact ⟨hi, hf⟩
  · rw [he]
    constructor
    · intro dn a
      simp only []
      rw [KMap.get_set]
      by_cases ha : a = a'
      · subst ha
        simp only [if_true]
        constructor
        · intro h
          obtain ⟨dis, hm⟩ := (hi dn a).1 h
          rw [hg] at hm; cases hm
          exact ⟨d, rfl⟩
        · rintro ⟨dis, hm⟩
          simp only [Option.some.injEq] at hm
          apply (hi dn a).2
          refine ⟨m0.disabled, ?_⟩
          rw [hg]
          cases m0
          simp only [Meta.mk.injEq] at hm
          simp only [Option.some.injEq, Meta.mk.injEq]
          exact ⟨hm.1, hm.2.1, trivial⟩
      · rw [if_neg ha]; exact hi dn a
    · intro n hn'
      simp only []
      have : createAddr n ≠ a' := by intro e; rw [← e, hf n hn'] at hg; cases hg
      rw [KMap.get_set_ne _ _ _ _ this]
      exact hf n hn'

/-- **C17 (invariants over every operation sequence).** -/
theorem C17_inv_run (s : State) (ops : List Op) (h : Inv s) : Inv (run s ops) := by
  induction ops generalizing s with
  | nil => exact h
  | cons o os ih => unfold run; simp only [List.foldl_cons]; exact ih _ (inv_step s o h)

/-- **C17 (at most one ERC-20 precompile per denomination).** -/
theorem C17_one_erc20_per_denom (s : State) (h : Inv s) (d a b : Nat) (da db : Bool)
    (ha : s.metas.get a = some ⟨tyErc20, d, da⟩) (hb : s.metas.get b = some ⟨tyErc20, d, db⟩) : a = b := by
  have h1 := (h.1 d a).2 ⟨da, ha⟩
  have h2 := (h.1 d b).2 ⟨db, hb⟩
  rw [h1] at h2; cases h2; rfl

/-- **C17 (exact exposure).** Exactly the registered, enabled contracts are callable. -/
theorem C17_exposure (s : State) (a : Nat) :
    callable s a = true ↔ ∃ m, s.metas.get a = some m ∧ m.disabled = false := by
  unfold callable
  cases h : s.metas.get a with
  | none => simp
  | some m => cases hd : m.disabled <;> simp [hd]

theorem empty_inv : Inv empty := by
  constructor
  · intro d a; simp [empty]
  · intro n _; simp [empty]

theorem step_keeps_none (s : State) (op : Op) (a : Nat) (h0 : s.metas.get a = none)
    (ha1 : ∀ n, a ≠ createAddr n) (ha2 : a ≠ stakingAddr) : (step s op).1.metas.get a = none := by
  cases h : (step s op).1.metas.get a with
  | none => rfl
  | some m =>
    exfalso
    rcases C17_only_whitelisted_add s op a h0 (by rw [h]; rfl) with ⟨_, _, _, _, _, e⟩ | ⟨_, _, _, e⟩
    · exact ha1 _ e
    · exact ha2 e

theorem inv_addBech32 (s : State) (h : Inv s) (hn : s.metas.get bech32Addr = none) : Inv (addBech32 s) := by
  obtain ⟨hi, hf⟩ := h
  unfold addBech32
  constructor
  · intro d a
    simp only []
    rw [KMap.get_set]
    by_cases ha : a = bech32Addr
    · subst ha
      simp only [if_true]
      constructor
      · intro h
        obtain ⟨dis, hm⟩ := (hi d bech32Addr).1 h
        rw [hn] at hm; cases hm
      · rintro ⟨dis, hm⟩
        simp only [Option.some.injEq, Meta.mk.injEq] at hm
        exact absurd hm.1 (by decide)
    · rw [if_neg ha]; exact hi d a
  · intro n hn'
    simp only []
    rw [KMap.get_set_ne _ _ _ _ (createAddr_ne_fixed n).2]
    exact hf n hn'

/-- **C17 (every genesis flag combination).** The state built by `InitGenesis` satisfies the invariants,
always contains the bech32 contract, and contains nothing but what the flags ask for. -/
theorem C17_genesis_inv (v : Nat) (wl : List Nat) (e st : Bool) (bond : Nat) :
    Inv (genesis v wl e st bond) ∧ (genesis v wl e st bond).metas.get bech32Addr = some ⟨tyBech32, 0, false⟩ ∧
    (genesis v wl e st bond).version = v ∧ (genesis v wl e st bond).whitelist = wl := by
  have hb : ∀ n, bech32Addr ≠ createAddr n := fun n e => (createAddr_ne_fixed n).2 e.symm
  have hbs : bech32Addr ≠ stakingAddr := by decide
  have h0 : Inv { empty with version := v, whitelist := [0] } := ⟨empty_inv.1, empty_inv.2⟩
  have n0 : ({ empty with version := v, whitelist := [0] } : State).metas.get bech32Addr = none := rfl
  have hv : ∀ (s : State) (op : Op), (∀ a b c d, op ≠ .updateParams a b c d) → (step s op).1.version = s.version := by
    intro s op hop
    rcases step_cases s op with he | ⟨_, _, _, _, _, _, _, _, he⟩ | ⟨_, _, _, _, he⟩ | ⟨x, y, z, hh, _⟩ | ⟨_, _, _, _, _, he⟩
    · rw [he]
    · rw [he]
    · rw [he]
    · exact absurd hh (hop _ _ _ _)
    · rw [he]
  unfold genesis
  simp only []
  cases e <;> cases st <;> simp only [Bool.false_eq_true, if_false, if_true]
  · exact ⟨⟨(inv_addBech32 _ h0 n0).1, (inv_addBech32 _ h0 n0).2⟩, by simp [addBech32], by simp [addBech32, empty], by simp⟩
  · have i1 := inv_step _ (.deployStaking 0 true) h0
    have n1 := step_keeps_none _ (.deployStaking 0 true) bech32Addr n0 hb hbs
    refine ⟨⟨(inv_addBech32 _ i1 n1).1, (inv_addBech32 _ i1 n1).2⟩, by simp [addBech32], ?_, by simp⟩
    show (step _ (.deployStaking 0 true)).1.version = v
    rw [hv _ _ (by intro a b c d h; cases h)]
  · have i1 := inv_step _ (.deployErc20 0 bond true true) h0
    have n1 := step_keeps_none _ (.deployErc20 0 bond true true) bech32Addr n0 hb hbs
    refine ⟨⟨(inv_addBech32 _ i1 n1).1, (inv_addBech32 _ i1 n1).2⟩, by simp [addBech32], ?_, by simp⟩
    show (step _ (.deployErc20 0 bond true true)).1.version = v
    rw [hv _ _ (by intro a b c d h; cases h)]
  · have i1 := inv_step _ (.deployErc20 0 bond true true) h0
    have n1 := step_keeps_none _ (.deployErc20 0 bond true true) bech32Addr n0 hb hbs
    have i2 := inv_step _ (.deployStaking 0 true) i1
    have n2 := step_keeps_none _ (.deployStaking 0 true) bech32Addr n1 hb hbs
    refine ⟨⟨(inv_addBech32 _ i2 n2).1, (inv_addBech32 _ i2 n2).2⟩, by simp [addBech32], ?_, by simp⟩
    show (step (step _ (.deployErc20 0 bond true true)).1 (.deployStaking 0 true)).1.version = v
    rw [hv _ _ (by intro a b c d h; cases h), hv _ _ (by intro a b c d h; cases h)]

/-! non-vacuity -/
example : (step (genesis 1 [7] false false 0) (.deployErc20 7 3 true true)).2 = .ok (createAddr 0) := by decide
example : (step (genesis 1 [7] false false 0) (.deployErc20 8 3 true true)).2 = .unauthorized := by decide
example : (step (step (genesis 1 [7] false false 0) (.deployErc20 7 3 true true)).1 (.deployErc20 7 3 true true)).2 = .conflict := by decide
example : callable (step (genesis 1 [7] true true 0) (.setDisabled stakingAddr true)).1 stakingAddr = false := by decide

end Evermint.Cpc
