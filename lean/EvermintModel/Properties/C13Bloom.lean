import EvermintModel.Model.Bloom
/-!
# C13 — "each receipt's bloom covers exactly its own logs and the block bloom is their union"

For every hash function `H`, every list of logs and every block (list of receipts, each a list of logs):

* `C13_bloom_exact` — bit `j` of a receipt's bloom is set **iff** it is one of the three bits of the address or of a
  topic of one of *its own* logs: nothing is missing (no false negative for an own log, `C13_bloom_covers`) and nothing
  else is set;
* `C13_bloom_union` — the bloom of two log lists together is the OR of their blooms;
* `C13_block_bloom_is_union` — the block bloom that `EndBlock` accumulates receipt by receipt equals the bloom of all
  logs of the block, and bit `j` of it is set iff it is set in some receipt's bloom (`C13_block_bloom_bits`);
* `C13_block_bloom_order` — it does not depend on the order of the receipts;
* `C13_bloom_fits` — a bloom fits the 256 bytes of the header field.

The functions are executable; the driver evaluates them with the Keccak-256 of `Model/Keccak.lean` on the logs of the
real receipts of every block of E-block and the result is compared with the receipts' `Bloom` fields and with the
`block_bloom` event (correspondence), so the claim about the *code* is: same function, for the blocks explored.
-/
namespace Evermint.Bloom

/-! ## bits of a fold of `||| 1 <<< i` -/

def setBits (b : Nat) (is : List Nat) : Nat := is.foldl (fun acc i => acc ||| (1 <<< i)) b

theorem testBit_one_shiftLeft (i j : Nat) : (1 <<< i).testBit j = decide (i = j) := by
  rw [Nat.one_shiftLeft, Nat.testBit_two_pow]

theorem testBit_setBits : ∀ (is : List Nat) (b j : Nat), (setBits b is).testBit j = (b.testBit j || is.contains j)
  | [], b, j => by simp [setBits]
  | i :: is, b, j => by
    have ih := testBit_setBits is (b ||| (1 <<< i)) j
    simp only [setBits, List.foldl_cons] at ih ⊢
    rw [ih, Nat.testBit_or, testBit_one_shiftLeft]
    by_cases h : i = j
    · subst h; simp
    · have h' : ¬ j = i := fun e => h e.symm
      simp [h, h']

/-- all bit positions contributed by a list of items / logs -/
def itemsBits (H : Hash) (its : List (List UInt8)) : List Nat := its.flatMap (bits H)
def logsBits (H : Hash) (logs : List Log) : List Nat := logs.flatMap (fun l => itemsBits H (items l))

theorem testBit_addItem (H : Hash) (b : Nat) (item : List UInt8) (j : Nat) :
    (addItem H b item).testBit j = (b.testBit j || (bits H item).contains j) := testBit_setBits _ _ _

theorem testBit_foldItems (H : Hash) : ∀ (its : List (List UInt8)) (b j : Nat),
    (its.foldl (addItem H) b).testBit j = (b.testBit j || (itemsBits H its).contains j)
  | [], b, j => by simp [itemsBits]
  | it :: its, b, j => by
    rw [List.foldl_cons, testBit_foldItems H its, testBit_addItem]
    simp [itemsBits, List.flatMap_cons, Bool.or_assoc]

theorem testBit_addLog (H : Hash) (b : Nat) (l : Log) (j : Nat) :
    (addLog H b l).testBit j = (b.testBit j || (itemsBits H (items l)).contains j) := testBit_foldItems H _ _ _

theorem testBit_foldLogs (H : Hash) : ∀ (logs : List Log) (b j : Nat),
    (logs.foldl (addLog H) b).testBit j = (b.testBit j || (logsBits H logs).contains j)
  | [], b, j => by simp [logsBits]
  | l :: logs, b, j => by
    rw [List.foldl_cons, testBit_foldLogs H logs, testBit_addLog]
    simp [logsBits, List.flatMap_cons, Bool.or_assoc]

theorem testBit_logsBloom (H : Hash) (logs : List Log) (j : Nat) :
    (logsBloom H logs).testBit j = (logsBits H logs).contains j := by
  unfold logsBloom
  rw [testBit_foldLogs]; simp

/-! ## the property -/

/-- **exactly its own logs**: a bit is set iff an own log's address or topic sets it -/
theorem C13_bloom_exact (H : Hash) (logs : List Log) (j : Nat) :
    (logsBloom H logs).testBit j = true ↔ ∃ l ∈ logs, ∃ item ∈ items l, j ∈ bits H item := by
  rw [testBit_logsBloom]
  simp only [logsBits, itemsBits, List.contains_eq_mem, decide_eq_true_eq, List.mem_flatMap]

/-- no false negatives: every own log passes the membership test, address and every topic -/
theorem C13_bloom_covers (H : Hash) (logs : List Log) (l : Log) (hl : l ∈ logs) (item : List UInt8) (hi : item ∈ items l) :
    test H (logsBloom H logs) item = true := by
  unfold test
  rw [List.all_eq_true]
  intro i hbit
  exact (C13_bloom_exact H logs i).2 ⟨l, hl, item, hi, hbit⟩

/-- **union** of two lists of logs -/
theorem C13_bloom_union (H : Hash) (a b : List Log) : logsBloom H (a ++ b) = logsBloom H a ||| logsBloom H b := by
  apply Nat.eq_of_testBit_eq
  intro j
  rw [Nat.testBit_or, testBit_logsBloom, testBit_logsBloom, testBit_logsBloom]
  simp [logsBits, List.flatMap_append]

theorem testBit_blockFold (H : Hash) : ∀ (rs : List (List Log)) (b j : Nat),
    (rs.foldl (fun acc r => acc ||| logsBloom H r) b).testBit j = (b.testBit j || rs.any (fun r => (logsBloom H r).testBit j))
  | [], b, j => by simp
  | r :: rs, b, j => by
    rw [List.foldl_cons, testBit_blockFold H rs, Nat.testBit_or]
    simp [Bool.or_assoc]

/-- bit `j` of the block bloom is set iff it is set in the bloom of some receipt of the block -/
theorem C13_block_bloom_bits (H : Hash) (rs : List (List Log)) (j : Nat) :
    (blockBloom H rs).testBit j = rs.any (fun r => (logsBloom H r).testBit j) := by
  unfold blockBloom
  rw [testBit_blockFold]; simp

/-- **the block bloom is the union**: what `EndBlock` accumulates receipt by receipt is the bloom of all logs of
the block -/
theorem C13_block_bloom_is_union (H : Hash) (rs : List (List Log)) : blockBloom H rs = logsBloom H rs.flatten := by
  apply Nat.eq_of_testBit_eq
  intro j
  rw [C13_block_bloom_bits, testBit_logsBloom]
  induction rs with
  | nil => simp [logsBits]
  | cons r rs ih =>
    simp only [List.any_cons, List.flatten_cons, logsBits, List.flatMap_append] at ih ⊢
    rw [ih, testBit_logsBloom]
    simp only [logsBits, List.contains_eq_mem, List.mem_append, Bool.decide_or]

/-- the block bloom does not depend on the order of the receipts -/
theorem C13_block_bloom_order (H : Hash) (rs rs' : List (List Log)) (hp : rs.Perm rs') : blockBloom H rs = blockBloom H rs' := by
  apply Nat.eq_of_testBit_eq
  intro j
  rw [C13_block_bloom_bits, C13_block_bloom_bits]
  exact hp.any_eq

theorem bits_lt (H : Hash) (item : List UInt8) : ∀ i ∈ bits H item, i < 2048 := by
  intro i hi
  simp only [bits, List.mem_cons, List.mem_nil_iff, or_false] at hi
  rcases hi with h | h | h <;> subst h <;> exact Nat.mod_lt _ (by decide)

/-- a bloom fits 2048 bits -/
theorem C13_bloom_fits (H : Hash) (logs : List Log) : logsBloom H logs < 2 ^ 2048 := by
  apply Nat.lt_pow_two_of_testBit
  intro j hj
  cases h : (logsBloom H logs).testBit j with
  | false => rfl
  | true =>
    obtain ⟨l, _, item, _, hb⟩ := (C13_bloom_exact H logs j).1 h
    have := bits_lt H item j hb
    omega

/-! non-vacuity: two receipts with logs, a constant "hash" that still separates two items -/
def exH : Hash := fun bs => bs ++ [0, 0, 0, 0, 0, 0]
def exLogs1 : List Log := [⟨[1, 2], [[3, 4], [5, 6]]⟩]
def exLogs2 : List Log := [⟨[7, 8], []⟩, ⟨[1, 2], [[9, 9]]⟩]
example : blockBloom exH [exLogs1, exLogs2] = logsBloom exH (exLogs1 ++ exLogs2) ∧ logsBloom exH exLogs1 ≠ 0 ∧
    test exH (logsBloom exH exLogs1) [3, 4] = true ∧ test exH (logsBloom exH exLogs1) [7, 8] = false := by decide

end Evermint.Bloom
