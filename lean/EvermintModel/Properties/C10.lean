import EvermintModel.Model.Erc20
/-!
# C10 — the ERC-20 precompile is an exact view of one bank denomination

Laws of views, moves, logs, failure and the code's allowance table are proved for every state and
call.  The allowance *safety* clause ("nobody can move or burn another holder's coins beyond the
allowance that holder approved") is stated against a per-token ghost table; it is **false** of the
current code when two ERC-20 precompiles exist (`C10_full_fails`, finding F5: the store key has no
token component) and proved for histories confined to one token (`C10_allowance_safety_partial`).
-/
namespace Evermint.Erc20
open Evermint

/-! ## failing calls change nothing; views -/

theorem step_some (s : State) (c : Call) (d : Nat) (hd : s.denomOf.get c.token = some d) :
    step s c = match exec s c d with
      | none => (s, .revert)
      | some (s', r, l) => (s', .ok r l) := by
  unfold step; rw [hd]; rfl

/-- **C10 (a failing call changes nothing).** -/
theorem C10_fail_is_noop (s : State) (c : Call) (h : (step s c).2 = .revert) : (step s c).1 = s := by
  unfold step at *
  cases hd : s.denomOf.get c.token with
  | none => rfl
  | some d =>
    rw [hd] at h
    simp only [] at h ⊢
    cases he : exec s c d with
    | none => rfl
    | some r => rw [he] at h; cases h

/-- a call that does not revert ran its method body to the end -/
theorem step_ok (s : State) (c : Call) (h : (step s c).2 ≠ .revert) :
    ∃ d s' r l, s.denomOf.get c.token = some d ∧ exec s c d = some (s', r, l) ∧ step s c = (s', .ok r l) := by
  unfold step at *
  cases hd : s.denomOf.get c.token with
  | none => rw [hd] at h; exact absurd rfl h
  | some d =>
    rw [hd] at h
    simp only [] at h ⊢
    cases he : exec s c d with
    | none => rw [he] at h; exact absurd rfl h
    | some r => obtain ⟨s', r', l⟩ := r; exact ⟨d, s', r', l, rfl, he, rfl⟩

/-- **C10 (views).** `balanceOf` / `totalSupply` return the bank balance / supply of the mapped
denomination, `allowance` the stored allowance, and none of them changes anything. -/
theorem C10_views_exact (s : State) (t caller d : Nat) (hd : s.denomOf.get t = some d) :
    (∀ a, step s ⟨t, caller, .balanceOf a⟩ = (s, .ok (s.bal.get (a, d)) none)) ∧
    step s ⟨t, caller, .totalSupply⟩ = (s, .ok (s.supply.get d) none) ∧
    (∀ o sp, step s ⟨t, caller, .allowance o sp⟩ = (s, .ok (s.allow.get (o, sp)) none)) := by
  refine ⟨fun a => ?_, ?_, fun o sp => ?_⟩ <;> (rw [step_some _ _ d hd]; rfl)

/-! ## the coin-moving core -/

/-- the balance table after moving `amt` of denom `d` from `f` to `to` (`to = 0`: destroyed) -/
def movedBal (s : State) (d f to amt : Nat) (k : Nat × Nat) : Nat :=
  if amt = 0 ∨ f = to then s.bal.get k
  else if k = (f, d) then s.bal.get k - amt
  else if to ≠ 0 ∧ k = (to, d) then s.bal.get k + amt
  else s.bal.get k

def movedSupply (s : State) (d f to amt : Nat) (d' : Nat) : Nat :=
  if amt ≠ 0 ∧ f ≠ to ∧ to = 0 ∧ d' = d then s.supply.get d' - amt else s.supply.get d'

theorem xfer_spec (s s' : State) (d f to amt : Nat) (h : xfer s d f to amt = some s') :
    amt ≤ s.bal.get (f, d) ∧
    (∀ k, s'.bal.get k = movedBal s d f to amt k) ∧
    (∀ d', s'.supply.get d' = movedSupply s d f to amt d') ∧
    s'.allow = s.allow ∧ s'.ghost = s.ghost ∧ s'.denomOf = s.denomOf ∧ s'.blocked = s.blocked ∧
    (amt ≠ 0 → f ≠ to → to ≠ 0 → s.blocked.contains to = false) := by
  unfold xfer at h
  by_cases h1 : s.bal.get (f, d) < amt
  · rw [if_pos h1] at h; cases h
  rw [if_neg h1] at h
  have hle : amt ≤ s.bal.get (f, d) := by omega
  by_cases h2 : amt = 0 ∨ f = to
  · rw [if_pos h2] at h; cases h
    refine ⟨hle, fun k => by simp [movedBal, h2], fun d' => ?_, rfl, rfl, rfl, rfl, ?_⟩
    · unfold movedSupply
      have : ¬ (amt ≠ 0 ∧ f ≠ to ∧ to = 0 ∧ d' = d) := by
        intro hh; rcases h2 with h2 | h2
        · exact hh.1 h2
        · exact hh.2.1 h2
      simp [this]
    · intro ha hf; rcases h2 with h2 | h2
      · exact absurd h2 ha
      · exact absurd h2 hf
  rw [if_neg h2] at h
  have ha : amt ≠ 0 := fun e => h2 (Or.inl e)
  have hft : f ≠ to := fun e => h2 (Or.inr e)
  by_cases h3 : to = 0
  · rw [if_pos h3] at h; cases h
    refine ⟨hle, fun k => ?_, fun d' => ?_, rfl, rfl, rfl, rfl, fun _ _ h0 => absurd h3 h0⟩
    · show (s.bal.set (f, d) (s.bal.get (f, d) - amt)).get k = _
      unfold movedBal
      rw [KMap.get_set, if_neg h2]
      by_cases hk : k = (f, d)
      · rw [if_pos hk, if_pos hk, hk]
      · rw [if_neg hk, if_neg hk]
        have : ¬ (to ≠ 0 ∧ k = (to, d)) := fun hh => hh.1 h3
        rw [if_neg this]
    · show (s.supply.set d (s.supply.get d - amt)).get d' = _
      unfold movedSupply
      rw [KMap.get_set]
      by_cases hd : d' = d
      · have : amt ≠ 0 ∧ f ≠ to ∧ to = 0 ∧ d' = d := ⟨ha, hft, h3, hd⟩
        rw [if_pos hd, if_pos this, hd]
      · have : ¬ (amt ≠ 0 ∧ f ≠ to ∧ to = 0 ∧ d' = d) := fun hh => hd hh.2.2.2
        rw [if_neg hd, if_neg this]
  rw [if_neg h3] at h
  by_cases h4 : s.blocked.contains to = true
  · rw [if_pos h4] at h; cases h
  rw [if_neg h4] at h; cases h
  have h4' : s.blocked.contains to = false := by
    cases hb : s.blocked.contains to with
    | false => rfl
    | true => exact absurd hb h4
  refine ⟨hle, fun k => ?_, fun d' => ?_, rfl, rfl, rfl, rfl, fun _ _ _ => h4'⟩
  · show ((s.bal.set (f, d) (s.bal.get (f, d) - amt)).set (to, d)
        ((s.bal.set (f, d) (s.bal.get (f, d) - amt)).get (to, d) + amt)).get k = _
    unfold movedBal
    have hne : (to, d) ≠ (f, d) := by intro e; apply hft; cases e; rfl
    rw [KMap.get_set, KMap.get_set, KMap.get_set, if_neg h2, if_neg hne]
    by_cases hk1 : k = (f, d)
    · have hk2 : k ≠ (to, d) := by rw [hk1]; exact fun e => hne e.symm
      rw [if_neg hk2, if_pos hk1, if_pos hk1, hk1]
    · rw [if_neg hk1, if_neg hk1]
      by_cases hk2 : k = (to, d)
      · have : to ≠ 0 ∧ k = (to, d) := ⟨h3, hk2⟩
        rw [if_pos hk2, if_pos this, hk2]
      · have : ¬ (to ≠ 0 ∧ k = (to, d)) := fun hh => hk2 hh.2
        rw [if_neg hk2, if_neg this]
  · unfold movedSupply
    have : ¬ (amt ≠ 0 ∧ f ≠ to ∧ to = 0 ∧ d' = d) := fun hh => h3 hh.2.2.1
    rw [if_neg this]

/-! ## successful transfer / burn: exactly the stated amount, one matching log -/

/-- **C10 (transfer).** A successful `transfer` moves exactly `amt` of the mapped denomination from the
caller to `to`, leaves every other balance and the supply untouched, emits exactly the matching
`Transfer` log and does not touch any allowance. -/
theorem C10_transfer_exact (s : State) (t caller d to amt : Nat) (hd : s.denomOf.get t = some d)
    (hok : (step s ⟨t, caller, .transfer to amt⟩).2 ≠ .revert) :
    (step s ⟨t, caller, .transfer to amt⟩).2 = .ok 1 (some (.transfer t caller to amt)) ∧
    caller ≠ 0 ∧ to ≠ 0 ∧ amt ≤ s.bal.get (caller, d) ∧
    (∀ k, (step s ⟨t, caller, .transfer to amt⟩).1.bal.get k = movedBal s d caller to amt k) ∧
    (∀ d', (step s ⟨t, caller, .transfer to amt⟩).1.supply.get d' = s.supply.get d') ∧
    (step s ⟨t, caller, .transfer to amt⟩).1.allow = s.allow := by
  obtain ⟨d1, s', r, l, hd1, he, hs⟩ := step_ok s _ hok
  have hdd : d1 = d := by simp only [] at hd1; rw [hd] at hd1; cases hd1; rfl
  subst hdd
  rw [hs]
  unfold exec at he
  simp only [] at he
  by_cases h0 : caller = 0 ∨ to = 0
  · rw [if_pos h0] at he; cases he
  rw [if_neg h0] at he
  have hc : caller ≠ 0 := fun e => h0 (Or.inl e)
  have ht : to ≠ 0 := fun e => h0 (Or.inr e)
  cases hx : xfer s d1 caller to amt with
  | none => rw [hx] at he; cases he
  | some s1 =>
    rw [hx] at he
    simp only [Option.map_some, Option.some.injEq, Prod.mk.injEq] at he
    obtain ⟨e1, e2, e3⟩ := he
    subst e1 e2 e3
    obtain ⟨hle, hb, hsup, ha, _⟩ := xfer_spec s s1 d1 caller to amt hx
    refine ⟨rfl, hc, ht, hle, hb, fun d' => ?_, ha⟩
    rw [hsup d']; unfold movedSupply
    have : ¬ (amt ≠ 0 ∧ caller ≠ to ∧ to = 0 ∧ d' = d1) := fun hh => ht hh.2.2.1
    rw [if_neg this]

/-- **C10 (burn).** A successful `burn` destroys exactly `amt`: the caller's balance and the supply of
the mapped denomination fall by `amt`, nothing else changes, one `Transfer(caller, 0, amt)` log. -/
theorem C10_burn_exact (s : State) (t caller d amt : Nat) (hd : s.denomOf.get t = some d)
    (hok : (step s ⟨t, caller, .burn amt⟩).2 ≠ .revert) :
    (step s ⟨t, caller, .burn amt⟩).2 = .ok 1 (some (.transfer t caller 0 amt)) ∧
    caller ≠ 0 ∧ amt ≤ s.bal.get (caller, d) ∧
    (∀ k, (step s ⟨t, caller, .burn amt⟩).1.bal.get k = movedBal s d caller 0 amt k) ∧
    (∀ d', (step s ⟨t, caller, .burn amt⟩).1.supply.get d' = movedSupply s d caller 0 amt d') ∧
    (step s ⟨t, caller, .burn amt⟩).1.allow = s.allow := by
  obtain ⟨d1, s', r, l, hd1, he, hs⟩ := step_ok s _ hok
  have hdd : d1 = d := by simp only [] at hd1; rw [hd] at hd1; cases hd1; rfl
  subst hdd
  rw [hs]
  unfold exec at he
  simp only [] at he
  by_cases h0 : caller = 0
  · rw [if_pos h0] at he; cases he
  rw [if_neg h0] at he
  cases hx : xfer s d1 caller 0 amt with
  | none => rw [hx] at he; cases he
  | some s1 =>
    rw [hx] at he
    simp only [Option.map_some, Option.some.injEq, Prod.mk.injEq] at he
    obtain ⟨e1, e2, e3⟩ := he
    subst e1 e2 e3
    obtain ⟨hle, hb, hsup, ha, _⟩ := xfer_spec s s1 d1 caller 0 amt hx
    exact ⟨rfl, h0, hle, hb, hsup, ha⟩

/-! ## the allowance table of the code -/

theorem spendAllowance_spec (s s1 : State) (o sp amt : Nat) (h : spendAllowance s o sp amt = some s1) :
    s1.bal = s.bal ∧ s1.supply = s.supply ∧ s1.ghost = s.ghost ∧ s1.denomOf = s.denomOf ∧ s1.blocked = s.blocked ∧
    ((s.allow.get (o, sp) = maxU256 ∧ s1.allow = s.allow) ∨
     (s.allow.get (o, sp) ≠ maxU256 ∧ amt ≤ s.allow.get (o, sp) ∧
      ∀ k, s1.allow.get k = if k = (o, sp) then s.allow.get (o, sp) - amt else s.allow.get k)) := by
  unfold spendAllowance at h
  simp only [] at h
  by_cases h1 : s.allow.get (o, sp) = maxU256
  · rw [if_pos h1] at h; cases h
    exact ⟨rfl, rfl, rfl, rfl, rfl, Or.inl ⟨h1, rfl⟩⟩
  rw [if_neg h1] at h
  by_cases h2 : s.allow.get (o, sp) < amt
  · rw [if_pos h2] at h; cases h
  rw [if_neg h2] at h; cases h
  refine ⟨rfl, rfl, rfl, rfl, rfl, Or.inr ⟨h1, by omega, fun k => ?_⟩⟩
  show (s.allow.set (o, sp) (s.allow.get (o, sp) - amt)).get k = _
  rw [KMap.get_set]

theorem ghostSpend_keeps (x : State) (t o sp amt : Nat) :
    (ghostSpend x t o sp amt).bal = x.bal ∧ (ghostSpend x t o sp amt).supply = x.supply ∧
    (ghostSpend x t o sp amt).allow = x.allow ∧ (ghostSpend x t o sp amt).blocked = x.blocked ∧
    (ghostSpend x t o sp amt).denomOf = x.denomOf := by
  unfold ghostSpend
  simp only []
  by_cases h : x.ghost.get (t, o, sp) = maxU256
  · rw [if_pos h]; exact ⟨rfl, rfl, rfl, rfl, rfl⟩
  · rw [if_neg h]; exact ⟨rfl, rfl, rfl, rfl, rfl⟩

/-- what `spendIfOther` leaves for `xfer`, and what it demanded -/
theorem spendIfOther_spec (s s1 : State) (t o caller amt : Nat) (hamt : amt ≤ maxU256)
    (h : spendIfOther s t o caller amt = some s1) :
    s1.bal = s.bal ∧ s1.supply = s.supply ∧ s1.denomOf = s.denomOf ∧ s1.blocked = s.blocked ∧
    (o ≠ caller → amt ≤ s.allow.get (o, caller)) ∧
    (∀ k, s1.allow.get k =
        if o ≠ caller ∧ k = (o, caller) ∧ s.allow.get (o, caller) ≠ maxU256 then s.allow.get k - amt else s.allow.get k) := by
  unfold spendIfOther at h
  by_cases hc : o = caller
  · rw [if_pos hc] at h; cases h
    refine ⟨rfl, rfl, rfl, rfl, fun hne => absurd hc hne, fun k => ?_⟩
    have : ¬ (o ≠ caller ∧ k = (o, caller) ∧ s.allow.get (o, caller) ≠ maxU256) := fun hh => hh.1 hc
    rw [if_neg this]
  rw [if_neg hc] at h
  cases hs : spendAllowance s o caller amt with
  | none => rw [hs] at h; cases h
  | some s0 =>
    rw [hs] at h
    simp only [Option.map_some, Option.some.injEq] at h
    subst h
    obtain ⟨b1, b2, _, b4, b5, hal⟩ := spendAllowance_spec s s0 o caller amt hs
    obtain ⟨g1, g2, g3, g4, g5⟩ := ghostSpend_keeps s0 t o caller amt
    refine ⟨by rw [g1, b1], by rw [g2, b2], by rw [g5, b4], by rw [g4, b5], fun _ => ?_, fun k => ?_⟩
    · rcases hal with ⟨hmax, _⟩ | ⟨_, hle, _⟩
      · rw [hmax]; exact hamt
      · exact hle
    · rw [g3]
      rcases hal with ⟨hmax, heq⟩ | ⟨hne, _, hk⟩
      · rw [heq]
        have : ¬ (o ≠ caller ∧ k = (o, caller) ∧ s.allow.get (o, caller) ≠ maxU256) := fun hh => hh.2.2 hmax
        rw [if_neg this]
      · rw [hk k]
        by_cases hkk : k = (o, caller)
        · have : o ≠ caller ∧ k = (o, caller) ∧ s.allow.get (o, caller) ≠ maxU256 := ⟨hc, hkk, hne⟩
          rw [if_pos hkk, if_pos this, hkk]
        · have : ¬ (o ≠ caller ∧ k = (o, caller) ∧ s.allow.get (o, caller) ≠ maxU256) := fun hh => hkk hh.2.1
          rw [if_neg hkk, if_neg this]

/-- **C10 (transferFrom).** A successful `transferFrom` moves exactly `amt` from `frm` to `to` with one
matching log; a caller other than the holder needed an allowance of at least `amt`; an unlimited
allowance is left as it is, any other is reduced by exactly `amt`; no other allowance changes. -/
theorem C10_transferFrom_exact (s : State) (t caller d frm to amt : Nat) (hd : s.denomOf.get t = some d)
    (hamt : amt ≤ maxU256)
    (hok : (step s ⟨t, caller, .transferFrom frm to amt⟩).2 ≠ .revert) :
    (step s ⟨t, caller, .transferFrom frm to amt⟩).2 = .ok 1 (some (.transfer t frm to amt)) ∧
    frm ≠ 0 ∧ to ≠ 0 ∧ amt ≤ s.bal.get (frm, d) ∧
    (∀ k, (step s ⟨t, caller, .transferFrom frm to amt⟩).1.bal.get k = movedBal s d frm to amt k) ∧
    (∀ d', (step s ⟨t, caller, .transferFrom frm to amt⟩).1.supply.get d' = s.supply.get d') ∧
    (frm ≠ caller → amt ≤ s.allow.get (frm, caller)) ∧
    (∀ k, (step s ⟨t, caller, .transferFrom frm to amt⟩).1.allow.get k =
        if frm ≠ caller ∧ k = (frm, caller) ∧ s.allow.get (frm, caller) ≠ maxU256 then s.allow.get k - amt else s.allow.get k) := by
  obtain ⟨d1, s', r, l, hd1, he, hs⟩ := step_ok s _ hok
  have hdd : d1 = d := by simp only [] at hd1; rw [hd] at hd1; cases hd1; rfl
  subst hdd
  rw [hs]
  unfold exec at he
  simp only [] at he
  by_cases h0 : frm = 0 ∨ to = 0
  · rw [if_pos h0] at he; cases he
  rw [if_neg h0] at he
  have hf : frm ≠ 0 := fun e => h0 (Or.inl e)
  have ht : to ≠ 0 := fun e => h0 (Or.inr e)
  cases hsp : spendIfOther s t frm caller amt with
  | none => rw [hsp] at he; cases he
  | some s1 =>
    rw [hsp] at he
    simp only [Option.bind_some] at he
    cases hx : xfer s1 d1 frm to amt with
    | none => rw [hx] at he; cases he
    | some s2 =>
      rw [hx] at he
      simp only [Option.map_some, Option.some.injEq, Prod.mk.injEq] at he
      obtain ⟨e1, e2, e3⟩ := he
      subst e1 e2 e3
      obtain ⟨c1, c2, _, _, c5, c6⟩ := spendIfOther_spec s s1 t frm caller amt hamt hsp
      obtain ⟨hle, hb, hsup, ha, _⟩ := xfer_spec s1 s2 d1 frm to amt hx
      refine ⟨rfl, hf, ht, by rw [c1] at hle; exact hle, fun k => ?_, fun d' => ?_, c5, fun k => ?_⟩
      · rw [hb k]; unfold movedBal; rw [c1]
      · rw [hsup d']; unfold movedSupply; rw [c2]
        have : ¬ (amt ≠ 0 ∧ frm ≠ to ∧ to = 0 ∧ d' = d1) := fun hh => ht hh.2.2.1
        rw [if_neg this]
      · rw [ha]; exact c6 k

/-- **C10 (burnFrom).** Same laws for burning another holder's coins. -/
theorem C10_burnFrom_exact (s : State) (t caller d a amt : Nat) (hd : s.denomOf.get t = some d)
    (hamt : amt ≤ maxU256)
    (hok : (step s ⟨t, caller, .burnFrom a amt⟩).2 ≠ .revert) :
    (step s ⟨t, caller, .burnFrom a amt⟩).2 = .ok 1 (some (.transfer t a 0 amt)) ∧
    a ≠ 0 ∧ amt ≤ s.bal.get (a, d) ∧
    (∀ k, (step s ⟨t, caller, .burnFrom a amt⟩).1.bal.get k = movedBal s d a 0 amt k) ∧
    (∀ d', (step s ⟨t, caller, .burnFrom a amt⟩).1.supply.get d' = movedSupply s d a 0 amt d') ∧
    (a ≠ caller → amt ≤ s.allow.get (a, caller)) ∧
    (∀ k, (step s ⟨t, caller, .burnFrom a amt⟩).1.allow.get k =
        if a ≠ caller ∧ k = (a, caller) ∧ s.allow.get (a, caller) ≠ maxU256 then s.allow.get k - amt else s.allow.get k) := by
  obtain ⟨d1, s', r, l, hd1, he, hs⟩ := step_ok s _ hok
  have hdd : d1 = d := by simp only [] at hd1; rw [hd] at hd1; cases hd1; rfl
  subst hdd
  rw [hs]
  unfold exec at he
  simp only [] at he
  by_cases h0 : a = 0
  · rw [if_pos h0] at he; cases he
  rw [if_neg h0] at he
  cases hsp : spendIfOther s t a caller amt with
  | none => rw [hsp] at he; cases he
  | some s1 =>
    rw [hsp] at he
    simp only [Option.bind_some] at he
    cases hx : xfer s1 d1 a 0 amt with
    | none => rw [hx] at he; cases he
    | some s2 =>
      rw [hx] at he
      simp only [Option.map_some, Option.some.injEq, Prod.mk.injEq] at he
      obtain ⟨e1, e2, e3⟩ := he
      subst e1 e2 e3
      obtain ⟨c1, c2, _, _, c5, c6⟩ := spendIfOther_spec s s1 t a caller amt hamt hsp
      obtain ⟨hle, hb, hsup, ha, _⟩ := xfer_spec s1 s2 d1 a 0 amt hx
      refine ⟨rfl, h0, by rw [c1] at hle; exact hle, fun k => ?_, fun d' => ?_, c5, fun k => ?_⟩
      · rw [hb k]; unfold movedBal; rw [c1]
      · rw [hsup d']; unfold movedSupply; rw [c2]
      · rw [ha]; exact c6 k

/-- **C10 (approve).** `approve` sets exactly one entry of the allowance table, moves no coins and
emits one `Approval` log. -/
theorem C10_approve_exact (s : State) (t caller d sp amt : Nat) (hd : s.denomOf.get t = some d)
    (hok : (step s ⟨t, caller, .approve sp amt⟩).2 ≠ .revert) :
    (step s ⟨t, caller, .approve sp amt⟩).2 = .ok 1 (some (.approval t caller sp amt)) ∧
    (step s ⟨t, caller, .approve sp amt⟩).1.bal = s.bal ∧ (step s ⟨t, caller, .approve sp amt⟩).1.supply = s.supply ∧
    (∀ k, (step s ⟨t, caller, .approve sp amt⟩).1.allow.get k = if k = (caller, sp) then amt else s.allow.get k) := by
  obtain ⟨d1, s', r, l, hd1, he, hs⟩ := step_ok s _ hok
  rw [hs]
  unfold exec at he
  simp only [] at he
  by_cases h0 : caller = 0 ∨ sp = 0
  · rw [if_pos h0] at he; cases he
  rw [if_neg h0] at he
  simp only [Option.some.injEq, Prod.mk.injEq] at he
  obtain ⟨e1, e2, e3⟩ := he
  subst e1 e2 e3
  refine ⟨rfl, rfl, rfl, fun k => ?_⟩
  show (s.allow.set (caller, sp) amt).get k = _
  rw [KMap.get_set]

/-! ## allowance safety against the per-token specification -/

/-- genesis: no allowances, no approvals -/
def Genesis (s : State) : Prop := (∀ k, s.allow.get k = 0) ∧ (∀ k, s.ghost.get k = 0)

/-- the full-strength statement: over any history from genesis, a spender never takes more out of a
holder on token `t` than that holder approved for that spender **on `t`** and is still unspent -/
def C10_full : Prop :=
  ∀ (s : State) (ops : List Op) (c : Call) (o sp x : Nat), Genesis s → c.spends = some (o, sp, x) → x ≤ maxU256 →
    (step (run s ops) c).2 ≠ .revert → x ≤ (run s ops).ghost.get (c.token, o, sp)

/-- witness state: two ERC-20 precompiles (ids 50 and 51 over denoms 0 and 1), holder 1 owns 1000 of each -/
def w0 : State :=
  { denomOf := ((KMap.empty none).set 50 (some 0)).set 51 (some 1),
    bal := ((KMap.empty 0).set (1, 0) 1000).set (1, 1) 1000,
    supply := ((KMap.empty 0).set 0 1000).set 1 1000,
    allow := KMap.empty 0, blocked := [], ghost := KMap.empty 0 }

/-- **C10 fails as stated (F5).** Holder 1 approves 500 for spender 2 on token 50 only; spender 2 then
moves 400 of token 51's denomination out of holder 1. -/
theorem C10_full_fails : ¬ C10_full := by
  intro h
  have := h w0 [.call ⟨50, 1, .approve 2 500⟩] ⟨51, 2, .transferFrom 1 3 400⟩ 1 2 400
    ⟨fun _ => rfl, fun _ => rfl⟩ (by decide) (by decide) (by decide)
  revert this
  decide

/-- ghost and code table agree on token `t` -/
def GhostAgree (s : State) (t : Nat) : Prop := ∀ o sp, s.ghost.get (t, o, sp) = s.allow.get (o, sp)

def Op.onToken (t : Nat) : Op → Prop
  | .call c => c.token = t
  | .send _ _ _ _ => True

theorem ghostAgree_xfer (s s' : State) (t d f to amt : Nat) (hx : xfer s d f to amt = some s') (h : GhostAgree s t) :
    GhostAgree s' t := by
  obtain ⟨_, _, _, ha, hg, _⟩ := xfer_spec s s' d f to amt hx
  intro o sp; rw [ha, hg]; exact h o sp

theorem ghostAgree_spendIfOther (s s1 : State) (t o caller amt : Nat) (h : GhostAgree s t)
    (hs : spendIfOther s t o caller amt = some s1) : GhostAgree s1 t := by
  unfold spendIfOther at hs
  by_cases hc : o = caller
  · rw [if_pos hc] at hs; cases hs; exact h
  rw [if_neg hc] at hs
  cases hsa : spendAllowance s o caller amt with
  | none => rw [hsa] at hs; cases hs
  | some s0 =>
    rw [hsa] at hs
    simp only [Option.map_some, Option.some.injEq] at hs
    subst hs
    obtain ⟨_, _, hgh, _, _, hal⟩ := spendAllowance_spec s s0 o caller amt hsa
    intro o' sp'
    unfold ghostSpend
    simp only []
    rcases hal with ⟨hmax, heq⟩ | ⟨hne, _, hk⟩
    · have hm : s0.ghost.get (t, o, caller) = maxU256 := by rw [hgh, h o caller, hmax]
      rw [if_pos hm, hgh, heq]; exact h o' sp'
    · have hm : s0.ghost.get (t, o, caller) ≠ maxU256 := by rw [hgh, h o caller]; exact hne
      rw [if_neg hm]
      show (s0.ghost.set (t, o, caller) (s0.ghost.get (t, o, caller) - amt)).get (t, o', sp') = s0.allow.get (o', sp')
      rw [KMap.get_set, hk (o', sp'), hgh]
      by_cases hk2 : (o', sp') = (o, caller)
      · have h3 : (t, o', sp') = (t, o, caller) := by cases hk2; rfl
        rw [if_pos h3, if_pos hk2, h o caller]
      · have h3 : (t, o', sp') ≠ (t, o, caller) := by intro e; apply hk2; cases e; rfl
        rw [if_neg h3, if_neg hk2]; exact h o' sp'

theorem ghostAgree_step (s : State) (c : Call) (t : Nat) (ht : c.token = t) (h : GhostAgree s t) :
    GhostAgree (step s c).1 t := by
  by_cases hr : (step s c).2 = .revert
  · rw [C10_fail_is_noop s c hr]; exact h
  obtain ⟨d, s', r, l, _, he, hs⟩ := step_ok s c hr
  rw [hs]
  show GhostAgree s' t
  unfold exec at he
  cases hm : c.m with
  | balanceOf a => rw [hm] at he; cases he; exact h
  | totalSupply => rw [hm] at he; cases he; exact h
  | allowance o sp => rw [hm] at he; cases he; exact h
  | approve sp amt =>
    rw [hm] at he
    simp only [] at he
    by_cases h0 : c.caller = 0 ∨ sp = 0
    · rw [if_pos h0] at he; cases he
    rw [if_neg h0] at he
    simp only [Option.some.injEq, Prod.mk.injEq] at he
    obtain ⟨e1, _, _⟩ := he
    subst e1
    intro o' sp'
    show (s.ghost.set (c.token, c.caller, sp) amt).get (t, o', sp') = (s.allow.set (c.caller, sp) amt).get (o', sp')
    rw [KMap.get_set, KMap.get_set, ht]
    by_cases hk : (o', sp') = (c.caller, sp)
    · have h3 : (t, o', sp') = (t, c.caller, sp) := by cases hk; rfl
      rw [if_pos h3, if_pos hk]
    · have h3 : (t, o', sp') ≠ (t, c.caller, sp) := by intro e; apply hk; cases e; rfl
      rw [if_neg h3, if_neg hk]; exact h o' sp'
  | transfer to amt =>
    rw [hm] at he
    simp only [] at he
    by_cases h0 : c.caller = 0 ∨ to = 0
    · rw [if_pos h0] at he; cases he
    rw [if_neg h0] at he
    cases hx : xfer s d c.caller to amt with
    | none => rw [hx] at he; cases he
    | some s1 =>
      rw [hx] at he
      simp only [Option.map_some, Option.some.injEq, Prod.mk.injEq] at he
      obtain ⟨e1, _, _⟩ := he
      subst e1
      exact ghostAgree_xfer s s1 t d c.caller to amt hx h
  | burn amt =>
    rw [hm] at he
    simp only [] at he
    by_cases h0 : c.caller = 0
    · rw [if_pos h0] at he; cases he
    rw [if_neg h0] at he
    cases hx : xfer s d c.caller 0 amt with
    | none => rw [hx] at he; cases he
    | some s1 =>
      rw [hx] at he
      simp only [Option.map_some, Option.some.injEq, Prod.mk.injEq] at he
      obtain ⟨e1, _, _⟩ := he
      subst e1
      exact ghostAgree_xfer s s1 t d c.caller 0 amt hx h
  | transferFrom frm to amt =>
    rw [hm] at he
    simp only [] at he
    by_cases h0 : frm = 0 ∨ to = 0
    · rw [if_pos h0] at he; cases he
    rw [if_neg h0] at he
    cases hsp : spendIfOther s c.token frm c.caller amt with
    | none => rw [hsp] at he; cases he
    | some s1 =>
      rw [hsp] at he
      simp only [Option.bind_some] at he
      cases hx : xfer s1 d frm to amt with
      | none => rw [hx] at he; cases he
      | some s2 =>
        rw [hx] at he
        simp only [Option.map_some, Option.some.injEq, Prod.mk.injEq] at he
        obtain ⟨e1, _, _⟩ := he
        subst e1
        rw [ht] at hsp
        exact ghostAgree_xfer s1 s2 t d frm to amt hx (ghostAgree_spendIfOther s s1 t frm c.caller amt h hsp)
  | burnFrom a amt =>
    rw [hm] at he
    simp only [] at he
    by_cases h0 : a = 0
    · rw [if_pos h0] at he; cases he
    rw [if_neg h0] at he
    cases hsp : spendIfOther s c.token a c.caller amt with
    | none => rw [hsp] at he; cases he
    | some s1 =>
      rw [hsp] at he
      simp only [Option.bind_some] at he
      cases hx : xfer s1 d a 0 amt with
      | none => rw [hx] at he; cases he
      | some s2 =>
        rw [hx] at he
        simp only [Option.map_some, Option.some.injEq, Prod.mk.injEq] at he
        obtain ⟨e1, _, _⟩ := he
        subst e1
        rw [ht] at hsp
        exact ghostAgree_xfer s1 s2 t d a 0 amt hx (ghostAgree_spendIfOther s s1 t a c.caller amt h hsp)

theorem ghostAgree_apply (s : State) (op : Op) (t : Nat) (ht : op.onToken t) (h : GhostAgree s t) :
    GhostAgree (apply s op) t := by
  cases op with
  | call c => exact ghostAgree_step s c t ht h
  | send f to d a =>
    unfold apply bankSend
    simp only []
    by_cases h1 : s.blocked.contains to = true
    · rw [if_pos h1]; exact h
    rw [if_neg h1]
    by_cases h2 : s.bal.get (f, d) < a
    · rw [if_pos h2]; exact h
    rw [if_neg h2]
    by_cases h3 : f = to
    · rw [if_pos h3]; exact h
    rw [if_neg h3]; exact fun o sp => h o sp

theorem ghostAgree_run (s : State) (ops : List Op) (t : Nat) (ht : ∀ op ∈ ops, op.onToken t) (h : GhostAgree s t) :
    GhostAgree (run s ops) t := by
  induction ops generalizing s with
  | nil => exact h
  | cons op ops ih =>
    unfold run
    simp only [List.foldl_cons]
    exact ih (apply s op) (fun o ho => ht o (List.mem_cons_of_mem _ ho)) (ghostAgree_apply s op t (ht op (List.mem_cons_self ..)) h)

/-- a successful spend needed that much allowance in the code's table -/
theorem spend_needs_allowance (s : State) (c : Call) (o sp x : Nat) (hs : c.spends = some (o, sp, x)) (hx : x ≤ maxU256)
    (hok : (step s c).2 ≠ .revert) : x ≤ s.allow.get (o, sp) := by
  obtain ⟨d, _, _, _, hd, _, _⟩ := step_ok s c hok
  unfold Call.spends at hs
  cases hm : c.m with
  | transferFrom frm to amt =>
    rw [hm] at hs
    simp only [] at hs
    by_cases hne : frm ≠ c.caller
    · rw [if_pos hne] at hs
      simp only [Option.some.injEq, Prod.mk.injEq] at hs
      obtain ⟨e1, e2, e3⟩ := hs
      subst e1 e2 e3
      have hc : c = ⟨c.token, c.caller, .transferFrom frm to amt⟩ := by cases c; simp_all
      rw [hc] at hok
      exact (C10_transferFrom_exact s c.token c.caller d frm to amt hd hx hok).2.2.2.2.2.2.1 hne
    · rw [if_neg hne] at hs; cases hs
  | burnFrom a amt =>
    rw [hm] at hs
    simp only [] at hs
    by_cases hne : a ≠ c.caller
    · rw [if_pos hne] at hs
      simp only [Option.some.injEq, Prod.mk.injEq] at hs
      obtain ⟨e1, e2, e3⟩ := hs
      subst e1 e2 e3
      have hc : c = ⟨c.token, c.caller, .burnFrom a amt⟩ := by cases c; simp_all
      rw [hc] at hok
      exact (C10_burnFrom_exact s c.token c.caller d a amt hd hx hok).2.2.2.2.2.1 hne
    · rw [if_neg hne] at hs; cases hs
  | balanceOf a => rw [hm] at hs; cases hs
  | totalSupply => rw [hm] at hs; cases hs
  | allowance _ _ => rw [hm] at hs; cases hs
  | transfer _ _ => rw [hm] at hs; cases hs
  | approve _ _ => rw [hm] at hs; cases hs
  | burn _ => rw [hm] at hs; cases hs

/-- **C10 (allowance safety, partial).** With a single ERC-20 precompile in play — every call of the
history and the spending call target the same token — the full statement holds over every history. -/
theorem C10_allowance_safety_partial (s : State) (ops : List Op) (c : Call) (o sp x : Nat) (hg : Genesis s)
    (hone : ∀ op ∈ ops, op.onToken c.token)
    (hs : c.spends = some (o, sp, x)) (hx : x ≤ maxU256) (hok : (step (run s ops) c).2 ≠ .revert) :
    x ≤ (run s ops).ghost.get (c.token, o, sp) := by
  have h0 : GhostAgree s c.token := fun o sp => by rw [hg.1, hg.2]
  rw [ghostAgree_run s ops c.token hone h0 o sp]
  exact spend_needs_allowance (run s ops) c o sp x hs hx hok

/-! non-vacuity -/
example : (step w0 ⟨50, 1, .transfer 2 300⟩).2 = .ok 1 (some (.transfer 50 1 2 300)) := by decide
example : (step w0 ⟨50, 1, .transfer 2 1001⟩).2 = .revert := by decide
example : (step (step w0 ⟨50, 1, .approve 2 500⟩).1 ⟨50, 2, .transferFrom 1 3 400⟩).1.allow.get (1, 2) = 100 := by decide
example : (step (step w0 ⟨50, 1, .approve 2 maxU256⟩).1 ⟨50, 2, .burnFrom 1 400⟩).1.allow.get (1, 2) = maxU256 := by decide

end Evermint.Erc20
