import EvermintModel.Model.Ante
/-!
# C07 — dual-lane isolation

The acceptance rule is written here from the property text (`ethShapeOK`, `cosmosOK`),
independently of the transcription in `Model/Ante.lean`, and the composed handler is proved to
accept nothing outside it, in every mode and at every nesting depth.
-/
namespace Evermint.Ante

/-! ## the specification, from the property statement -/

/-- "accepted only if that is its sole message and it carries no Cosmos signatures or signer infos,
no fee payer or granter, no memo, no timeout height and no foreign extension option, and its declared
fee and gas limit equal those of the embedded Ethereum transaction" -/
def ethShapeOK (t : Tx) : Prop :=
  t.msgs = [Msg.eth] ∧ t.sigs = 0 ∧ t.signerInfos = 0 ∧ t.payer = false ∧ t.granter = false ∧
  t.memo = false ∧ t.timeout = 0 ∧ t.nonCrit = 0 ∧ (t.extOpts = [] ∨ t.extOpts = [0]) ∧
  t.feeCoins = coinsOfFee t.eth.fee ∧ t.gasLimit = t.eth.gas

/-- the part of the shape that is re-established in re-check mode (validate-basic is skipped there;
CometBFT only re-checks bytes that passed check) -/
def ethShapeRecheck (t : Tx) : Prop :=
  t.msgs = [Msg.eth] ∧ t.memo = false ∧ t.timeout = 0 ∧ t.nonCrit = 0 ∧ (t.extOpts = [] ∨ t.extOpts = [0])

mutual
/-- every message nested (at any depth ≥ 1) below a message through exec nesting -/
def Msg.nested : Msg → List Msg
  | .exec ms => ms ++ nestedL ms
  | _ => []
def nestedL : List Msg → List Msg
  | [] => []
  | m :: ms => m.nested ++ nestedL ms
end

mutual
/-- exec nesting depth: a plain message is 0, `exec ms` is one more than its deepest inner message -/
def Msg.depth : Msg → Nat
  | .exec ms => 1 + depthL ms
  | _ => 0
def depthL : List Msg → Nat
  | [] => 0
  | m :: ms => max m.depth (depthL ms)
end

/-- a message that may never run through the Cosmos lane below an exec: an Ethereum message or one of
the configured vesting-creation messages (or anything else carrying a disabled url) -/
def Msg.forbiddenNested (m : Msg) : Prop :=
  match m with
  | .exec _ => False
  | .grant _ => False
  | m => isDisabledUrl m.url = true

def Msg.badGrant : Msg → Prop
  | .grant u => isDisabledUrl u = true
  | _ => False

/-- "Ethereum messages (and the configured vesting-creation messages) can never be executed through
the Cosmos lane - neither listed beside other messages nor nested at any depth inside
authorisation-exec messages - and grants for them are refused" (+ the depth cap) -/
def cosmosOK (t : Tx) : Prop :=
  (∀ m ∈ t.msgs, m.isEth = false) ∧
  (∀ m ∈ nestedL t.msgs, ¬ m.forbiddenNested) ∧
  (∀ m ∈ t.msgs ++ nestedL t.msgs, ¬ m.badGrant) ∧
  1 + depthL t.msgs ≤ maxNestedLevels

/-! ## the nested-message screen is sound at every depth -/

/-- what an accepting run of `checkDisabledMsgs(msgs, lvl)` establishes -/
def ScreenOK (ms : List Msg) (lvl : Nat) : Prop :=
  lvl + depthL ms ≤ maxNestedLevels ∧
  (∀ m ∈ nestedL ms, ¬ m.forbiddenNested) ∧
  (lvl > 1 → ∀ m ∈ ms, ¬ m.forbiddenNested) ∧
  (∀ m ∈ ms ++ nestedL ms, ¬ m.badGrant)

def ScreenOK1 (m : Msg) (lvl : Nat) : Prop :=
  lvl + m.depth ≤ maxNestedLevels ∧
  (∀ x ∈ m.nested, ¬ x.forbiddenNested) ∧
  (lvl > 1 → ¬ m.forbiddenNested) ∧
  (¬ m.badGrant) ∧ (∀ x ∈ m.nested, ¬ x.badGrant)

theorem screen_cons {m : Msg} {ms : List Msg} {lvl : Nat} (h1 : ScreenOK1 m lvl) (h2 : ScreenOK ms lvl) :
    ScreenOK (m :: ms) lvl := by
  obtain ⟨a1, a2, a3, a4, a5⟩ := h1
  obtain ⟨b1, b2, b3, b4⟩ := h2
  refine ⟨?_, ?_, ?_, ?_⟩
  · simp only [depthL]; omega
  · intro x hx
    simp only [nestedL, List.mem_append] at hx
    rcases hx with hx | hx
    · exact a2 x hx
    · exact b2 x hx
  · intro hl x hx
    simp only [List.mem_cons] at hx
    rcases hx with rfl | hx
    · exact a3 hl
    · exact b3 hl x hx
  · intro x hx
    simp only [nestedL, List.mem_append, List.mem_cons] at hx
    rcases hx with (rfl | hx) | hx | hx
    · exact a4
    · exact b4 x (by simp [hx])
    · exact a5 x hx
    · exact b4 x (by simp [hx])

theorem screen_nil (lvl : Nat) (h : lvl ≤ maxNestedLevels) : ScreenOK [] lvl := by
  refine ⟨by simpa [depthL] using h, ?_, ?_, ?_⟩ <;> simp [nestedL]

mutual
theorem checkMsgs_sound : ∀ (ms : List Msg) (lvl : Nat), 1 ≤ lvl → checkMsgs ms lvl = none → ScreenOK ms lvl
  | [], lvl, _, h => by
    unfold checkMsgs at h
    split at h
    · cases h
    · exact screen_nil lvl (by omega)
  | m :: ms, lvl, h1l, h => by
    unfold checkMsgs at h
    split at h
    · cases h
    · rename_i hl
      cases h1 : checkMsg m lvl with
      | some e => simp [h1] at h
      | none =>
        simp only [h1] at h
        exact screen_cons (checkMsg_sound m lvl h1l (by omega) h1) (checkTail_sound ms lvl h1l (by omega) h)
theorem checkTail_sound : ∀ (ms : List Msg) (lvl : Nat), 1 ≤ lvl → lvl ≤ maxNestedLevels → checkTail ms lvl = none → ScreenOK ms lvl
  | [], lvl, _, hl, _ => screen_nil lvl hl
  | m :: ms, lvl, h1l, hl, h => by
    unfold checkTail at h
    cases h1 : checkMsg m lvl with
    | some e => simp [h1] at h
    | none =>
      simp only [h1] at h
      exact screen_cons (checkMsg_sound m lvl h1l hl h1) (checkTail_sound ms lvl h1l hl h)
theorem checkMsg_sound : ∀ (m : Msg) (lvl : Nat), 1 ≤ lvl → lvl ≤ maxNestedLevels → checkMsg m lvl = none → ScreenOK1 m lvl
  | .exec inner, lvl, h1l, _, h => by
    unfold checkMsg at h
    obtain ⟨a1, a2, a3, a4⟩ := checkMsgs_sound inner (lvl + 1) (by omega) h
    refine ⟨?_, ?_, ?_, ?_, ?_⟩
    · simp only [Msg.depth]; omega
    · intro x hx
      simp only [Msg.nested, List.mem_append] at hx
      rcases hx with hx | hx
      · exact a3 (by omega) x hx
      · exact a2 x hx
    · intro _; simp [Msg.forbiddenNested]
    · simp [Msg.badGrant]
    · intro x hx
      simp only [Msg.nested] at hx
      exact a4 x hx
  | .grant u, lvl, _, hl, h => by
    unfold checkMsg at h
    refine ⟨by simpa [Msg.depth] using hl, by simp [Msg.nested], fun _ => by simp [Msg.forbiddenNested], ?_, by simp [Msg.nested]⟩
    simp only [Msg.badGrant]
    split at h
    · cases h
    · assumption
  | .eth, lvl, _, hl, h => by
    unfold checkMsg at h
    refine ⟨by simpa [Msg.depth] using hl, by simp [Msg.nested], ?_, by simp [Msg.badGrant], by simp [Msg.nested]⟩
    intro hgt
    simp only [Msg.forbiddenNested, Msg.url]
    split at h
    · cases h
    · rename_i hc
      have : decide (lvl > 1) = true := by simpa using hgt
      simpa [this] using hc
  | .vesting k to, lvl, _, hl, h => by
    unfold checkMsg at h
    refine ⟨by simpa [Msg.depth] using hl, by simp [Msg.nested], ?_, by simp [Msg.badGrant], by simp [Msg.nested]⟩
    intro hgt
    simp only [Msg.forbiddenNested, Msg.url]
    split at h
    · cases h
    · rename_i hc
      have : decide (lvl > 1) = true := by simpa using hgt
      simpa [this] using hc
  | .other u, lvl, _, hl, h => by
    unfold checkMsg at h
    refine ⟨by simpa [Msg.depth] using hl, by simp [Msg.nested], ?_, by simp [Msg.badGrant], by simp [Msg.nested]⟩
    intro hgt
    simp only [Msg.forbiddenNested, Msg.url]
    split at h
    · cases h
    · rename_i hc
      have : decide (lvl > 1) = true := by simpa using hgt
      simpa [this] using hc
end

/-- inversion of an accepting Cosmos-lane run -/
theorem cosmosLane_none {t : Tx} {mode : Mode} {sdk : Option String} {hp : Nat → Bool}
    (h : cosmosLane t mode sdk hp = none) :
    sdk = none ∧ t.msgs.any Msg.isEth = false ∧ checkMsgs t.msgs 1 = none ∧ vestingGate hp t.msgs = none := by
  unfold cosmosLane at h
  by_cases hx : (t.extOpts.any (· != 1)) = true
  · rw [if_pos hx] at h; cases h
  rw [if_neg hx] at h
  by_cases h0 : (decide (mode ≠ .recheck) && t.msgs.any Msg.isEth) = true
  · rw [if_pos h0] at h; cases h
  · rw [if_neg h0] at h
    cases sdk with
    | some e => cases h
    | none =>
      simp only at h
      by_cases h1 : t.msgs.any Msg.isEth = true
      · rw [if_pos h1] at h; cases h
      · rw [if_neg h1] at h
        cases hc : checkMsgs t.msgs 1 with
        | some e => rw [hc] at h; cases h
        | none =>
          rw [hc] at h
          exact ⟨rfl, by simpa using h1, rfl, h⟩

theorem run_cosmos {p : Params} {t : Tx} {mode : Mode} {late : Option String} {hp : Nat → Bool}
    (hs : hasSingleEth t = false) (hacc : run p t mode late hp = none) : cosmosLane t mode late hp = none := by
  unfold run at hacc
  by_cases hb : (t.msgs.any Msg.isEth && !t.eth.msgBasicOK) = true
  · rw [if_pos hb] at hacc; cases hacc
  · rw [if_neg hb] at hacc; simpa [hs] using hacc

theorem run_eth {p : Params} {t : Tx} {mode : Mode} {late : Option String} {hp : Nat → Bool}
    (hs : hasSingleEth t = true) (hacc : run p t mode late hp = none) :
    (match ethLane p t mode with | some e => some e | none => late.map ("late:" ++ ·)) = none := by
  unfold run at hacc
  by_cases hb : (t.msgs.any Msg.isEth && !t.eth.msgBasicOK) = true
  · rw [if_pos hb] at hacc; cases hacc
  · rw [if_neg hb, if_pos hs] at hacc
    cases hl : ethLane p t mode <;> simp_all

/-! ## property theorems -/

theorem hasSingleEth_iff (t : Tx) : hasSingleEth t = true ↔ t.msgs = [Msg.eth] := by
  unfold hasSingleEth
  constructor
  · intro h
    match hm : t.msgs with
    | [] => simp [hm] at h
    | [m] =>
      cases m <;> simp_all [Msg.isEth]
    | _ :: _ :: _ => simp [hm] at h
  · intro h; simp [h, Msg.isEth]

/-- inversion of an accepting Ethereum-lane run outside re-check -/
theorem ethLane_none {p : Params} {t : Tx} {mode : Mode} (hmode : mode ≠ .recheck) (h : ethLane p t mode = none) :
    isEthereumTx t = true ∧ t.signerInfos = 0 ∧ t.payer = false ∧ t.granter = false ∧ t.sigs = 0 ∧
    t.feeCoins = coinsOfFee t.eth.fee ∧ t.gasLimit = t.eth.gas ∧ t.timeout = 0 ∧ t.memo = false := by
  unfold ethLane at h
  by_cases h0 : (!isEthereumTx t) = true
  · rw [if_pos h0] at h; cases h
  rw [if_neg h0] at h
  simp only [if_neg hmode, if_neg h0] at h
  by_cases h1 : (!t.txBasicOK) = true
  · simp only [if_pos h1] at h; cases h
  simp only [if_neg h1] at h
  by_cases h2 : t.signerInfos > 0
  · simp only [if_pos h2] at h; cases h
  simp only [if_neg h2] at h
  by_cases h3 : (t.payer || t.granter) = true
  · simp only [if_pos h3] at h; cases h
  simp only [if_neg h3] at h
  by_cases h4 : t.sigs > 0
  · simp only [if_pos h4] at h; cases h
  simp only [if_neg h4] at h
  by_cases h5 : (!t.eth.msgBasicOK) = true
  · simp only [if_pos h5] at h; cases h
  simp only [if_neg h5] at h
  by_cases h6 : (!t.eth.asMessageOK) = true
  · simp only [if_pos h6] at h; cases h
  simp only [if_neg h6] at h
  by_cases h7 : (!p.enableCreate && t.eth.create) = true
  · simp only [if_pos h7] at h; cases h
  simp only [if_neg h7] at h
  by_cases h8 : (!p.enableCall && !t.eth.create) = true
  · simp only [if_pos h8] at h; cases h
  simp only [if_neg h8] at h
  by_cases h9 : (!t.eth.prot) = true
  · simp only [if_pos h9] at h; cases h
  simp only [if_neg h9] at h
  by_cases h10 : t.feeCoins ≠ coinsOfFee t.eth.fee
  · simp only [if_pos h10] at h; cases h
  simp only [if_neg h10] at h
  by_cases h11 : t.gasLimit ≠ t.eth.gas
  · simp only [if_pos h11] at h; cases h
  simp only [if_neg h11] at h
  by_cases h12 : t.eth.fromEmpty = true
  · simp only [if_pos h12] at h; cases h
  simp only [if_neg h12] at h
  by_cases h13 : t.eth.senderHasCode = true
  · simp only [if_pos h13] at h; cases h
  simp only [if_neg h13] at h
  by_cases h14 : t.timeout ≠ 0
  · simp only [if_pos h14] at h; cases h
  simp only [if_neg h14] at h
  by_cases h15 : t.memo = true
  · simp only [if_pos h15] at h; cases h
  refine ⟨by simpa using h0, by omega, ?_, ?_, by omega, by simpa using h10, by simpa using h11, by simpa using h14, by simpa using h15⟩
  · cases hp : t.payer <;> simp_all
  · cases hg : t.granter <;> simp_all

/-- inversion of an accepting Ethereum-lane run in re-check -/
theorem ethLane_none_recheck {p : Params} {t : Tx} (h : ethLane p t .recheck = none) :
    isEthereumTx t = true ∧ t.timeout = 0 ∧ t.memo = false := by
  unfold ethLane at h
  by_cases h0 : (!isEthereumTx t) = true
  · rw [if_pos h0] at h; cases h
  rw [if_neg h0] at h
  simp only [if_true] at h
  by_cases h12 : t.eth.fromEmpty = true
  · simp only [if_pos h12] at h; cases h
  simp only [if_neg h12] at h
  by_cases h13 : t.eth.senderHasCode = true
  · simp only [if_pos h13] at h; cases h
  simp only [if_neg h13] at h
  by_cases h14 : t.timeout ≠ 0
  · simp only [if_pos h14] at h; cases h
  simp only [if_neg h14] at h
  by_cases h15 : t.memo = true
  · simp only [if_pos h15] at h; cases h
  exact ⟨by simpa using h0, by simpa using h14, by simpa using h15⟩

theorem isEthereumTx_shape {t : Tx} (h : isEthereumTx t = true) :
    t.msgs = [Msg.eth] ∧ t.nonCrit = 0 ∧ (t.extOpts = [] ∨ t.extOpts = [0]) := by
  unfold isEthereumTx at h
  simp only [Bool.and_eq_true, Bool.or_eq_true, beq_iff_eq] at h
  exact ⟨(hasSingleEth_iff t).1 h.1.1, h.1.2, h.2⟩

/-- **C07 (Ethereum lane).** In check, simulate and deliver mode, a transaction containing a single
Ethereum message that the composed handler accepts has exactly the shape the property demands. -/
theorem C07_eth_lane (p : Params) (t : Tx) (mode : Mode) (late : Option String) (hp : Nat → Bool)
    (hmode : mode ≠ .recheck) (hsingle : hasSingleEth t = true) (hacc : run p t mode late hp = none) :
    ethShapeOK t := by
  have hacc := run_eth hsingle hacc
  cases hl : ethLane p t mode with
  | some e => rw [hl] at hacc; cases hacc
  | none =>
    obtain ⟨h0, h1, h2, h3, h4, h5, h6, h7, h8⟩ := ethLane_none hmode hl
    obtain ⟨s1, s2, s3⟩ := isEthereumTx_shape h0
    exact ⟨s1, h4, h1, h2, h3, h8, h7, s2, s3, h5, h6⟩

/-- **C07 (re-check).** Re-check skips validate-basic; the lane predicate, extension options, memo and
timeout rules are still enforced there. -/
theorem C07_recheck (p : Params) (t : Tx) (late : Option String) (hp : Nat → Bool)
    (hsingle : hasSingleEth t = true) (hacc : run p t .recheck late hp = none) :
    ethShapeRecheck t := by
  have hacc := run_eth hsingle hacc
  cases hl : ethLane p t .recheck with
  | some e => rw [hl] at hacc; cases hacc
  | none =>
    obtain ⟨h0, h7, h8⟩ := ethLane_none_recheck hl
    obtain ⟨s1, s2, s3⟩ := isEthereumTx_shape h0
    exact ⟨s1, h8, h7, s2, s3⟩

/-- **C07 (Cosmos lane).** Whatever the mode and however deep the nesting, a transaction that is not a
single Ethereum message and is accepted carries no Ethereum message at top level, nothing forbidden
below any exec, no grant for a forbidden url, and respects the depth cap. -/
theorem C07_cosmos_lane (p : Params) (t : Tx) (mode : Mode) (late : Option String) (hp : Nat → Bool)
    (hsingle : hasSingleEth t = false) (hacc : run p t mode late hp = none) :
    cosmosOK t := by
  have hacc := run_cosmos hsingle hacc
  obtain ⟨_, hne, hc, _⟩ := cosmosLane_none hacc
  obtain ⟨a1, a2, _, a4⟩ := checkMsgs_sound t.msgs 1 (by omega) hc
  refine ⟨?_, a2, a4, by omega⟩
  intro m hm
  cases hme : m.isEth with
  | false => rfl
  | true =>
    exfalso
    have : t.msgs.any Msg.isEth = true := by
      simp only [List.any_eq_true]
      exact ⟨m, hm, hme⟩
    rw [hne] at this; cases this

/-- **C07 (exactly one lane).** Every decorator consults the same predicate: past the message-level
basic validation, the handler's verdict is the Ethereum lane's for a single Ethereum message and the
Cosmos lane's otherwise — never a mixture. -/
theorem C07_exclusive (p : Params) (t : Tx) (mode : Mode) (late : Option String) (hp : Nat → Bool)
    (hb : (t.msgs.any Msg.isEth && !t.eth.msgBasicOK) = false) :
    (hasSingleEth t = true ∧ run p t mode late hp = (match ethLane p t mode with | some e => some e | none => late.map ("late:" ++ ·))) ∨
    (hasSingleEth t = false ∧ run p t mode late hp = cosmosLane t mode late hp) := by
  unfold run
  rw [hb]
  cases h : hasSingleEth t with
  | true => left; refine ⟨rfl, ?_⟩; simp only [Bool.false_eq_true, if_false, if_true]; cases ethLane p t mode <;> rfl
  | false => right; simp

/-- **C07 (handler unreachable from the Cosmos lane).** An accepted transaction that contains an
Ethereum message anywhere — top level or nested at any depth — is exactly a single-Ethereum-message
transaction (so the message runs through the Ethereum lane's checks). -/
theorem C07_handler_unreachable (p : Params) (t : Tx) (mode : Mode) (late : Option String) (hp : Nat → Bool)
    (hacc : run p t mode late hp = none)
    (heth : ∃ m ∈ t.msgs ++ nestedL t.msgs, m.isEth = true) : t.msgs = [Msg.eth] := by
  cases hs : hasSingleEth t with
  | true => exact (hasSingleEth_iff t).1 hs
  | false =>
    exfalso
    obtain ⟨c1, c2, _, _⟩ := C07_cosmos_lane p t mode late hp hs hacc
    obtain ⟨m, hm, hme⟩ := heth
    simp only [List.mem_append] at hm
    rcases hm with hm | hm
    · have := c1 m hm; simp [this] at hme
    · apply c2 m hm
      cases m <;> simp_all [Msg.isEth, Msg.forbiddenNested, Msg.url, isDisabledUrl, disabledUrls]

/-- **C16 gate (shared).** An accepted Cosmos-lane transaction creates vesting accounts only at top
level and only for addresses with a stored proof. -/
theorem vestingGate_sound (hp : Nat → Bool) : ∀ (ms : List Msg), vestingGate hp ms = none →
    ∀ k to, k < 3 → Msg.vesting k to ∈ ms → hp to = true
  | [], _, _, _, _, hm => by cases hm
  | m :: ms, h, k, to, hk, hm => by
    simp only [List.mem_cons] at hm
    cases m with
    | vesting k' to' =>
      unfold vestingGate at h
      split at h
      · cases h
      · rename_i hc
        rcases hm with heq | hm
        · cases heq
          simp only [Bool.and_eq_true, decide_eq_true_eq, Bool.not_eq_true', not_and, Bool.not_eq_false] at hc
          exact hc hk
        · exact vestingGate_sound hp ms h k to hk hm
    | eth => unfold vestingGate at h; rcases hm with heq | hm; cases heq; exact vestingGate_sound hp ms h k to hk hm
    | exec _ => unfold vestingGate at h; rcases hm with heq | hm; cases heq; exact vestingGate_sound hp ms h k to hk hm
    | grant _ => unfold vestingGate at h; rcases hm with heq | hm; cases heq; exact vestingGate_sound hp ms h k to hk hm
    | other _ => unfold vestingGate at h; rcases hm with heq | hm; cases heq; exact vestingGate_sound hp ms h k to hk hm

theorem C16_gate (p : Params) (t : Tx) (mode : Mode) (late : Option String) (hp : Nat → Bool)
    (hacc : run p t mode late hp = none) :
    (∀ k to, k < 3 → Msg.vesting k to ∈ t.msgs → hp to = true) ∧
    (∀ k to, k < 3 → Msg.vesting k to ∉ nestedL t.msgs) := by
  cases hs : hasSingleEth t with
  | true =>
    have hm := (hasSingleEth_iff t).1 hs
    constructor
    · intro k to _ hmem; rw [hm] at hmem; simp at hmem
    · intro k to _ hmem; rw [hm] at hmem; simp [nestedL, Msg.nested] at hmem
  | false =>
    obtain ⟨_, c2, _, _⟩ := C07_cosmos_lane p t mode late hp hs hacc
    have hacc := run_cosmos hs hacc
    obtain ⟨_, _, _, hv⟩ := cosmosLane_none hacc
    constructor
    · exact vestingGate_sound hp t.msgs hv
    · intro k to hk hmem
      apply c2 _ hmem
      simp only [Msg.forbiddenNested, Msg.url, isDisabledUrl, disabledUrls]
      have : k = 0 ∨ k = 1 ∨ k = 2 := by omega
      rcases this with rfl | rfl | rfl <;> decide

/-! ## non-vacuity: concrete accepted and rejected shapes -/

def sampleEth : Tx :=
  { msgs := [.eth], eth := { msgBasicOK := true, asMessageOK := true, create := false, prot := true, fee := 21000, gas := 21000, fromEmpty := false, senderHasCode := false },
    extOpts := [0], nonCrit := 0, sigs := 0, signerInfos := 0, payer := false, granter := false, memo := false, timeout := 0,
    feeCoins := [(0, 21000)], gasLimit := 21000, txBasicOK := true }

example : run {} sampleEth .deliver none (fun _ => false) = none := by decide
example : run {} { sampleEth with memo := true } .deliver none (fun _ => false) = some "05e-memo" := by decide
example : run {} { sampleEth with sigs := 1 } .recheck none (fun _ => false) = none := by decide  -- why C07_recheck is weaker
example : run {} { sampleEth with extOpts := [], msgs := [.exec [.exec [.other 9]]] } .deliver none (fun _ => false) = none := by decide
example : run {} { sampleEth with extOpts := [], msgs := [.exec [.exec [.exec [.other 9]]]] } .deliver none (fun _ => false) = some "992c-level" := by decide
example : run {} { sampleEth with extOpts := [], msgs := [.other 9, .exec [.exec [.eth]]] } .check none (fun _ => false) = some "992c-nested" := by decide
example : run {} { sampleEth with extOpts := [], msgs := [.vesting 1 7] } .deliver none (fun a => a == 7) = none := by decide
example : run {} { sampleEth with extOpts := [], msgs := [.vesting 1 7] } .deliver none (fun _ => false) = some "993c" := by decide
example : run {} { sampleEth with extOpts := [], msgs := [.grant 2] } .simulate none (fun _ => true) = some "992c-grant" := by decide
example : run {} { sampleEth with msgs := [.other 9] } .deliver none (fun _ => false) = some "02-extopt" := by decide

end Evermint.Ante
