import EvermintModel.Model.Indexer
/-!
# C14 — transaction indexer agrees with consensus results  *(indexer core; RPC views are tied by E-indexer)*

* `C14_lookup_by_hash` / `C14_lookup_by_index` — every Ethereum transaction that passed the ante handler
  is found by hash and by (block, index); the two lookups return the same record, with the transaction's
  real position in the block.
* `C14_index_eq_consensus` — the indexer's own counter equals the chain's transient transaction counter
  (both skip exactly the transactions without an `ethereum_tx` event).
* `C14_reindex_idempotent` — indexing a block again changes no lookup.
* `C14_restart_skips_fails` / `C14_restart_resumes` — the restart rule: from a non-empty index the service
  resumes right after the last indexed block; from an empty one it jumps to the node's latest height, so
  blocks committed in between are never indexed (finding F12).
-/
namespace Evermint.Indexer
open Evermint

def cntBefore (ts : List TxRec) (i : Nat) : Nat := (ts.take i).countP (fun t => counted t)

def stored (t : TxRec) : Bool := counted t && persisted t

theorem put_get_other (db : Db) (h pos idx : Nat) (t : TxRec) (x : Nat) (hx : x ≠ t.hash) :
    (put db h pos idx t).byHash.get x = db.byHash.get x := by
  unfold put; simp only []; exact KMap.get_set_ne _ _ _ _ hx

/-- hashes of transactions the loop does not store are not touched -/
theorem indexFrom_get_other (h : Nat) : ∀ (ts : List TxRec) (pos cnt : Nat) (db : Db) (x : Nat),
    (∀ t ∈ ts, stored t = true → t.hash ≠ x) → (indexFrom h ts pos cnt db).byHash.get x = db.byHash.get x
  | [], _, _, _, _, _ => rfl
  | t :: ts, pos, cnt, db, x, hn => by
    unfold indexFrom
    have hrest : ∀ t' ∈ ts, stored t' = true → t'.hash ≠ x := fun t' ht' => hn t' (List.mem_cons_of_mem _ ht')
    by_cases hc : counted t = true
    · rw [if_pos hc, indexFrom_get_other h ts _ _ _ x hrest]
      by_cases hp : persisted t = true
      · rw [if_pos hp]
        have : stored t = true := by unfold stored; rw [hc, hp]; rfl
        exact put_get_other db h pos cnt t x (fun e => hn t (List.mem_cons_self ..) this e.symm)
      · rw [if_neg hp]
    · rw [if_neg hc, indexFrom_get_other h ts _ _ _ x hrest]

theorem indexFrom_idx_other (h : Nat) : ∀ (ts : List TxRec) (pos cnt : Nat) (db : Db) (h' k : Nat),
    (h' ≠ h ∨ k < cnt) → (indexFrom h ts pos cnt db).byIdx.get (h', k) = db.byIdx.get (h', k)
  | [], _, _, _, _, _, _ => rfl
  | t :: ts, pos, cnt, db, h', k, hk => by
    unfold indexFrom
    by_cases hc : counted t = true
    · rw [if_pos hc, indexFrom_idx_other h ts _ _ _ h' k (by rcases hk with hk | hk; exact Or.inl hk; exact Or.inr (by omega))]
      by_cases hp : persisted t = true
      · rw [if_pos hp]
        unfold put; simp only []
        apply KMap.get_set_ne
        intro e
        cases e
        rcases hk with hk | hk
        · exact hk rfl
        · omega
      · rw [if_neg hp]
    · rw [if_neg hc, indexFrom_idx_other h ts _ _ _ h' k hk]

/-- the record stored for the transaction at list position `i` -/
theorem indexFrom_get (h : Nat) : ∀ (ts : List TxRec) (pos cnt : Nat) (db : Db) (i : Nat) (t : TxRec),
    (ts.map (·.hash)).Nodup → ts[i]? = some t → stored t = true →
    (indexFrom h ts pos cnt db).byHash.get t.hash = some ⟨h, pos + i, cnt + cntBefore ts i, failedFlag t⟩ ∧
    (indexFrom h ts pos cnt db).byIdx.get (h, cnt + cntBefore ts i) = some t.hash
  | [], _, _, _, _, _, _, hi, _ => by simp at hi
  | t0 :: ts, pos, cnt, db, 0, t, hnd, hi, hs => by
    simp only [List.getElem?_cons_zero, Option.some.injEq] at hi
    subst hi
    simp only [List.map_cons, List.nodup_cons] at hnd
    unfold stored at hs
    simp only [Bool.and_eq_true] at hs
    unfold indexFrom
    rw [if_pos hs.1, if_pos hs.2]
    constructor
    · rw [indexFrom_get_other h ts _ _ _ t0.hash (fun t' ht' _ e => hnd.1 (e ▸ List.mem_map_of_mem ht'))]
      unfold put; simp [cntBefore]
    · rw [indexFrom_idx_other h ts _ _ _ h (cnt + cntBefore (t0 :: ts) 0) (Or.inr (by simp [cntBefore]))]
      unfold put; simp [cntBefore]
  | t0 :: ts, pos, cnt, db, i + 1, t, hnd, hi, hs => by
    simp only [List.getElem?_cons_succ] at hi
    simp only [List.map_cons, List.nodup_cons] at hnd
    unfold indexFrom
    by_cases hc : counted t0 = true
    · rw [if_pos hc]
      have := indexFrom_get h ts (pos + 1) (cnt + 1) (if persisted t0 then put db h pos cnt t0 else db) i t hnd.2 hi hs
      have e1 : pos + 1 + i = pos + (i + 1) := by omega
      have e2 : cnt + 1 + cntBefore ts i = cnt + cntBefore (t0 :: ts) (i + 1) := by
        simp [cntBefore, List.take_succ_cons, List.countP_cons, hc]; omega
      rw [e1, e2] at this
      exact this
    · rw [if_neg hc]
      have := indexFrom_get h ts (pos + 1) cnt db i t hnd.2 hi hs
      have e1 : pos + 1 + i = pos + (i + 1) := by omega
      have e2 : cntBefore ts i = cntBefore (t0 :: ts) (i + 1) := by
        simp [cntBefore, List.take_succ_cons, List.countP_cons, hc]
      rw [e1, e2] at this
      exact this

/-- **C14 (lookup by hash).** -/
theorem C14_lookup_by_hash (db : Db) (h : Nat) (txs : List TxRec) (i : Nat) (t : TxRec)
    (hnd : (txs.map (·.hash)).Nodup) (hi : txs[i]? = some t) (hs : stored t = true) :
    getByHash (indexBlock db h txs) t.hash = some ⟨h, i, cntBefore txs i, failedFlag t⟩ := by
  have := (indexFrom_get h txs 0 0 db i t hnd hi hs).1
  simpa [indexBlock, getByHash] using this

/-- **C14 (lookup by block and index agrees with lookup by hash).** -/
theorem C14_lookup_by_index (db : Db) (h : Nat) (txs : List TxRec) (i : Nat) (t : TxRec)
    (hnd : (txs.map (·.hash)).Nodup) (hi : txs[i]? = some t) (hs : stored t = true) :
    getByBlockAndIndex (indexBlock db h txs) h (cntBefore txs i) = getByHash (indexBlock db h txs) t.hash := by
  have := (indexFrom_get h txs 0 0 db i t hnd hi hs).2
  simp only [Nat.zero_add] at this
  unfold getByBlockAndIndex indexBlock
  rw [this]; rfl

/-- results as the chain produces them: the `ethereum_tx` event exists exactly for decodable, valid
Ethereum transactions that passed the ante handler; a successful result of such a transaction has it -/
def WF (t : TxRec) : Prop := (t.hasEthEv = true → t.decodable = true ∧ t.isEth = true) ∧
  (t.decodable = true → t.isEth = true → t.codeOK = true → t.hasEthEv = true)

theorem counted_iff_ev (t : TxRec) (h : WF t) : counted t = t.hasEthEv := by
  obtain ⟨h1, h2⟩ := h
  unfold counted dropped
  cases hd : t.decodable <;> cases hi : t.isEth <;> cases hc : t.codeOK <;> cases he : t.hasEthEv <;> simp_all

theorem cntBefore_eq_consensus : ∀ (txs : List TxRec) (i : Nat), (∀ t ∈ txs, WF t) → cntBefore txs i = consensusIdx txs i
  | [], i, _ => by simp [cntBefore, consensusIdx]
  | t :: ts, 0, _ => by simp [cntBefore, consensusIdx]
  | t :: ts, i + 1, h => by
    have ih := cntBefore_eq_consensus ts i (fun t' ht' => h t' (List.mem_cons_of_mem _ ht'))
    have hc := counted_iff_ev t (h t (List.mem_cons_self ..))
    unfold cntBefore at ih ⊢
    simp only [List.take_succ_cons, List.countP_cons, consensusIdx, hc, ih]
    cases t.hasEthEv <;> simp <;> omega

/-- **C14 (the indexer's counter is the chain's counter).** The `EthTxIndex` stored for a transaction equals
the `txIndex` the chain put into its `ethereum_tx` event: the number of earlier transactions of the block
that passed the ante handler. -/
theorem C14_index_eq_consensus (db : Db) (h : Nat) (txs : List TxRec) (i : Nat) (t : TxRec)
    (hnd : (txs.map (·.hash)).Nodup) (hwf : ∀ t ∈ txs, WF t) (hi : txs[i]? = some t) (hs : stored t = true) :
    getByHash (indexBlock db h txs) t.hash = some ⟨h, i, consensusIdx txs i, failedFlag t⟩ := by
  rw [C14_lookup_by_hash db h txs i t hnd hi hs, cntBefore_eq_consensus txs i hwf]

/-- every transaction that passed the ante handler is stored -/
theorem ev_stored (t : TxRec) (h : WF t) (he : t.hasEthEv = true) : stored t = true := by
  unfold stored persisted
  rw [counted_iff_ev t h, he]; simp [he]

/-- **C14 (idempotent).** Indexing a block again changes no lookup by hash. -/
theorem C14_reindex_idempotent (db : Db) (h : Nat) (txs : List TxRec) (hnd : (txs.map (·.hash)).Nodup) (x : Nat) :
    getByHash (indexBlock (indexBlock db h txs) h txs) x = getByHash (indexBlock db h txs) x := by
  unfold getByHash indexBlock
  by_cases hx : ∃ (i : Nat) (t : TxRec), txs[i]? = some t ∧ stored t = true ∧ t.hash = x
  · obtain ⟨i, t, hi, hs, rfl⟩ := hx
    rw [(indexFrom_get h txs 0 0 _ i t hnd hi hs).1, (indexFrom_get h txs 0 0 _ i t hnd hi hs).1]
  · rw [indexFrom_get_other h txs 0 0 _ x]
    intro t ht hs e
    apply hx
    obtain ⟨i, hi⟩ := List.getElem?_of_mem ht
    exact ⟨i, t, hi, hs, e⟩

/-- **C14 (restart from a non-empty index).** The service resumes right after the last block found in the
index, whatever the node's latest height is. -/
theorem C14_restart_resumes (l latest : Nat) : resumeAfter (some l) latest = l := rfl

/-- the full-strength crash-convergence statement for the restart rule: wherever the service died, it
resumes at most at the first block it had not indexed yet -/
def C14_restart_full : Prop := ∀ (lastIndexed : Option Nat) (firstUnindexed latest : Nat),
  (∀ l, lastIndexed = some l → l < firstUnindexed) → firstUnindexed ≤ latest →
    resumeAfter lastIndexed latest < firstUnindexed

/-- **C14 fails as stated (F12).** With an empty index (service killed before its first batch write, or only
blocks without Ethereum transactions so far) the restart jumps to the node's latest height: blocks committed
in between are never indexed. -/
theorem C14_restart_skips_fails : ¬ C14_restart_full := by
  intro h
  have := h none 11 12 (by intro l hl; cases hl) (by omega)
  simp [resumeAfter] at this

theorem C14_restart_partial (l firstUnindexed latest : Nat) (h : l < firstUnindexed) :
    resumeAfter (some l) latest < firstUnindexed := h

/-! non-vacuity -/
def okTx (hash : Nat) : TxRec := ⟨hash, true, true, true, true, true, false⟩
def rejTx (hash : Nat) : TxRec := ⟨hash, true, true, false, false, false, false⟩   -- rejected by the ante handler
def cosTx (hash : Nat) : TxRec := ⟨hash, true, false, true, false, false, false⟩
example : getByHash (indexBlock Db.empty 7 [okTx 1, rejTx 2, cosTx 3, okTx 4]) 4 = some ⟨7, 3, 1, false⟩ := by decide
example : getByBlockAndIndex (indexBlock Db.empty 7 [okTx 1, rejTx 2, cosTx 3, okTx 4]) 7 1 = some ⟨7, 3, 1, false⟩ := by decide
example : getByHash (indexBlock Db.empty 7 [okTx 1, rejTx 2]) 2 = none := by decide

end Evermint.Indexer
