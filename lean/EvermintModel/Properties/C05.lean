import EvermintModel.Model.Block
/-!
# C05 — senders are charged exactly gas used × effective price, in every outcome

All statements are about `Block.stepEth` for *every* block state, transaction and execution
summary (no bounds on amounts, prices, gas).  The interpreter enters only through its contract
`gasBefore ≤ gasLimit` (it cannot use more gas than it was given).
-/
namespace Evermint.Block

/-- the gas the Ethereum receipt shows for a transaction of this class: the real gas used when the
execution was committed, the full gas limit when it failed outside the EVM (the assume-failed
receipt written by the ante handler) -/
def receiptGas (t : EthTx) (x : Exec) : Class → Nat
  | .ok | .vmerr => x.gasUsed
  | .cerr | .panic | .blockOog => t.gasLimit
  | _ => 0

def valueMoved (t : EthTx) (x : Exec) : Class → Nat
  | .ok => t.value
  | _ => 0

def admitted : Class → Bool
  | .ok | .vmerr | .cerr | .panic | .blockOog => true
  | _ => false

theorem gasUsed_le (x : Exec) : x.gasUsed ≤ x.gasBefore := Nat.sub_le _ _

theorem refund_identity (gl eg p : Nat) (h : eg ≤ gl) : (gl - eg) * p + eg * p = p * gl := by
  rw [← Nat.add_mul, Nat.sub_add_cancel h, Nat.mul_comm]

/-- **charge law**: a transaction that passed admission costs its sender exactly
(receipt gas used × effective price) + value actually moved — in every outcome class.
(`toWallet ≠ sender`: a self-transfer nets the value out, stated separately.) -/
theorem C05_charge (s : BState) (t : EthTx) (x : Exec) (hx : x.gasBefore ≤ t.gasLimit)
    (hself : t.toWallet ≠ some t.sender)
    (hadm : admitted (stepEth s t x).2.cls = true) :
    (stepEth s t x).2.dSender =
      -((receiptGas t x (stepEth s t x).2.cls * effPrice t s.baseFee + valueMoved t x (stepEth s t x).2.cls : Nat) : Int) := by
  have hgu : x.gasUsed ≤ t.gasLimit := Nat.le_trans (gasUsed_le x) hx
  have hid := refund_identity t.gasLimit x.gasUsed (effPrice t s.baseFee) hgu
  rcases stepEth_cases s t x with ⟨_, h⟩ | ⟨_, _, h⟩ | ⟨_, _, code, _, _, _, h⟩ | ⟨_, _, _, _, h⟩ | ⟨_, _, _, _, _, h⟩ |
    ⟨_, _, _, _, _, _, h⟩ | ⟨_, _, _, _, _, _, h⟩ <;> rw [h] at hadm ⊢
  · simp [noOut, admitted] at hadm
  · simp [noOut, admitted] at hadm
  · simp [noOut, admitted] at hadm
  · simp [failedOut, noOut, receiptGas, valueMoved, Nat.mul_comm]
  · simp [failedOut, noOut, receiptGas, valueMoved, Nat.mul_comm]
  · simp [failedOut, noOut, receiptGas, valueMoved, Nat.mul_comm]
  · simp only [committedOut, hself, if_false]
    by_cases hv : x.vmErr = true
    · simp only [hv, if_true, receiptGas, valueMoved]; omega
    · have hv' : x.vmErr = false := by simpa using hv
      simp only [hv', receiptGas, valueMoved, Bool.false_eq_true, if_false]; omega

/-- self-transfer: the value comes back, only the gas is paid -/
theorem C05_charge_self (s : BState) (t : EthTx) (x : Exec) (hx : x.gasBefore ≤ t.gasLimit)
    (hself : t.toWallet = some t.sender)
    (hadm : admitted (stepEth s t x).2.cls = true) :
    (stepEth s t x).2.dSender = -((receiptGas t x (stepEth s t x).2.cls * effPrice t s.baseFee : Nat) : Int) := by
  have hgu : x.gasUsed ≤ t.gasLimit := Nat.le_trans (gasUsed_le x) hx
  have hid := refund_identity t.gasLimit x.gasUsed (effPrice t s.baseFee) hgu
  rcases stepEth_cases s t x with ⟨_, h⟩ | ⟨_, _, h⟩ | ⟨_, _, code, _, _, _, h⟩ | ⟨_, _, _, _, h⟩ | ⟨_, _, _, _, _, h⟩ |
    ⟨_, _, _, _, _, _, h⟩ | ⟨_, _, _, _, _, _, h⟩ <;> rw [h] at hadm ⊢
  · simp [noOut, admitted] at hadm
  · simp [noOut, admitted] at hadm
  · simp [noOut, admitted] at hadm
  · simp [failedOut, noOut, receiptGas, Nat.mul_comm]
  · simp [failedOut, noOut, receiptGas, Nat.mul_comm]
  · simp [failedOut, noOut, receiptGas, Nat.mul_comm]
  · simp only [committedOut, hself, if_true]
    by_cases hv : x.vmErr = true
    · simp only [hv, if_true, receiptGas]; omega
    · have hv' : x.vmErr = false := by simpa using hv
      simp only [hv', receiptGas, Bool.false_eq_true, if_false]; omega

/-- a transaction refused at admission (or dropped because the block is full) costs nothing and
changes no balance, no sequence, no per-block bookkeeping -/
theorem C05_rejected_free (s : BState) (t : EthTx) (x : Exec)
    (hadm : admitted (stepEth s t x).2.cls = false) :
    (stepEth s t x).2.dSender = 0 ∧ (stepEth s t x).2.dCollector = 0 ∧ (stepEth s t x).2.dSupply = 0 ∧
    (stepEth s t x).1.bal = s.bal ∧ (stepEth s t x).1.seq = s.seq ∧ (stepEth s t x).1.txCount = s.txCount ∧
    (stepEth s t x).1.gasSlots = s.gasSlots ∧ (stepEth s t x).1.logSlots = s.logSlots := by
  rcases stepEth_cases s t x with ⟨_, h⟩ | ⟨_, _, h⟩ | ⟨_, _, code, _, _, _, h⟩ | ⟨_, _, _, _, h⟩ | ⟨_, _, _, _, _, h⟩ |
    ⟨_, _, _, _, _, _, h⟩ | ⟨_, _, _, _, _, _, h⟩ <;> rw [h] at hadm ⊢
  · simp [noOut]
  · simp [noOut]
  · simp [noOut]
  · simp [failedOut, noOut, admitted] at hadm
  · simp [failedOut, noOut, admitted] at hadm
  · simp [failedOut, noOut, admitted] at hadm
  · by_cases hv : x.vmErr = true <;> simp [committedOut, admitted, hv] at hadm

/-- the storage refund never exceeds one fifth of the gas consumed -/
theorem C05_refund_cap (x : Exec) : x.refund ≤ x.gasBefore / 5 := Nat.min_le_left _ _

/-- bounds: gas used ≤ gas limit; and ≥ the intrinsic gas, given that every unit of the refund
counter was paid for by at least one unit of execution gas (a property of geth's gas table:
an SSTORE clear costs 5000 and refunds 4800) -/
theorem C05_bounds (t : EthTx) (x : Exec) (hx : x.gasBefore ≤ t.gasLimit)
    (hcounter : t.intrinsic + x.refundCounter ≤ x.gasBefore) :
    t.intrinsic ≤ x.gasUsed ∧ x.gasUsed ≤ t.gasLimit := by
  have h1 : x.refund ≤ x.refundCounter := Nat.min_le_right _ _
  unfold Exec.gasUsed
  constructor <;> omega

/-- committed transactions report the same gas used in the consensus result as in the receipt -/
theorem C05_result_eq_receipt (s : BState) (t : EthTx) (x : Exec)
    (hc : (stepEth s t x).2.cls = .ok ∨ (stepEth s t x).2.cls = .vmerr) :
    (stepEth s t x).2.rcptGas = some (stepEth s t x).2.gasUsed := by
  rcases stepEth_cases s t x with ⟨_, h⟩ | ⟨_, _, h⟩ | ⟨_, _, code, _, _, _, h⟩ | ⟨_, _, _, _, h⟩ | ⟨_, _, _, _, _, h⟩ |
    ⟨_, _, _, _, _, _, h⟩ | ⟨_, _, _, _, _, _, h⟩ <;> rw [h] at hc ⊢
  all_goals first
    | (simp [noOut, failedOut] at hc)
    | (simp [committedOut])

/-- the fee collector gains exactly what the sender paid in fees (shared with C04) -/
theorem C05_collector_gain (s : BState) (t : EthTx) (x : Exec) (hx : x.gasBefore ≤ t.gasLimit)
    (hadm : admitted (stepEth s t x).2.cls = true) :
    (stepEth s t x).2.dCollector = ((receiptGas t x (stepEth s t x).2.cls * effPrice t s.baseFee : Nat) : Int) := by
  have hgu : x.gasUsed ≤ t.gasLimit := Nat.le_trans (gasUsed_le x) hx
  have hid := refund_identity t.gasLimit x.gasUsed (effPrice t s.baseFee) hgu
  rcases stepEth_cases s t x with ⟨_, h⟩ | ⟨_, _, h⟩ | ⟨_, _, code, _, _, _, h⟩ | ⟨_, _, _, _, h⟩ | ⟨_, _, _, _, _, h⟩ |
    ⟨_, _, _, _, _, _, h⟩ | ⟨_, _, _, _, _, _, h⟩ <;> rw [h] at hadm ⊢
  · simp [noOut, admitted] at hadm
  · simp [noOut, admitted] at hadm
  · simp [noOut, admitted] at hadm
  · simp [failedOut, noOut, receiptGas, Nat.mul_comm]
  · simp [failedOut, noOut, receiptGas, Nat.mul_comm]
  · simp [failedOut, noOut, receiptGas, Nat.mul_comm]
  · simp only [committedOut]
    by_cases hv : x.vmErr = true
    · simp only [hv, if_true, receiptGas]; omega
    · have hv' : x.vmErr = false := by simpa using hv
      simp only [hv', receiptGas, Bool.false_eq_true, if_false]; omega

/-- the ante handler and the refund use the same price: `EthTxEffectiveGasPrice` (ante) and geth's
`AsMessage` price (refund) are the same expression of (type, fields, base fee) -/
theorem C05_one_price (t : EthTx) (base : Nat) :
    effPrice t base = (if t.ty = 2 then min (t.tip + base) t.feeCap else t.gasPrice) := rfl

/-! ## Non-vacuity -/
def exS : BState := { bal := (FMap.empty 0).set 0 (10^18), seq := FMap.empty 0, baseFee := 10, maxGas := 1000000, minRaw := 0 }
def exT : EthTx := {
  sender := 0
  ty := 2
  gasLimit := 100000
  gasPrice := 0
  feeCap := 50
  tip := 5
  value := 7
  nonce := 0
  create := false
  intrinsic := 21000
  sig := .ok
  toWallet := none
  sdBurn := 0 }
def exX : Exec := { vmErr := false, gasBefore := 61408, refundCounter := 38400, nLogs := 2, panicked := false }
example : (stepEth exS exT exX).2.cls = .ok ∧ (stepEth exS exT exX).2.dSender = -((61408 - 12281) * 15 + 7 : Nat) := by decide +kernel
example : (stepEth exS { exT with nonce := 1 } exX).2.cls = .anteRejected "sdk/3" := by decide +kernel
example : (stepEth exS exT { exX with panicked := true }).2.dSender = -(100000 * 15 : Nat) := by decide +kernel

end Evermint.Block
