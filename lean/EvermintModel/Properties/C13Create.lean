import EvermintModel.Model.CreateAddr
/-!
# C13 / C17 — the pre-image of the CREATE address determines (sender, nonce)

`C13_create_roundtrip`: decoding the RLP of `[sender, nonce]` gives the pair back, for every 20-byte sender and every
nonce (no bound).  Hence `C13_create_preimage_injective`: two different (sender, nonce) pairs never have the same
pre-image, so — for a collision-free hash, the standing assumption of C19 — a created-contract address names one
(sender, nonce), and the addresses the precompile registry derives from (module account, 0), (module account, 1), …
are pairwise different (`C17_registry_preimages_distinct`).

The functions are executable: the driver computes `createAddress` with the Keccak-256 of `Model/Keccak.lean` for
every contract address reported by a real receipt (E-block) and for every deployed precompile (E-cpc) and the
result is compared with what the code reports.
-/
namespace Evermint.CreateAddr

theorem ofBE_append_single (xs : List UInt8) (b : UInt8) : ofBE (xs ++ [b]) = ofBE xs * 256 + b.toNat := by
  simp [ofBE, List.foldl_append]

theorem toNat_ofNat_mod (n : Nat) : (UInt8.ofNat (n % 256)).toNat = n % 256 := by
  simp [UInt8.toNat_ofNat']

theorem ofBE_beBytesF : ∀ (f n : Nat), n ≤ f → ofBE (beBytesF f n) = n
  | 0, n, h => by
    have : n = 0 := by omega
    subst this; rfl
  | f + 1, n, h => by
    unfold beBytesF
    by_cases h0 : n = 0
    · subst h0; simp [ofBE]
    · rw [if_neg h0, ofBE_append_single, toNat_ofNat_mod, ofBE_beBytesF f (n / 256) (by omega)]
      omega

theorem ofBE_beBytes (n : Nat) : ofBE (beBytes n) = n := ofBE_beBytesF n n (Nat.le_refl n)

theorem decodeNat_rlpNat (n : Nat) : decodeNat (rlpNat n) = n := by
  unfold rlpNat
  by_cases h0 : n = 0
  · subst h0; simp [decodeNat]
  · rw [if_neg h0]
    by_cases h1 : n < 128
    · rw [if_pos h1]
      have ht : (UInt8.ofNat n).toNat = n := by
        simp [UInt8.toNat_ofNat']; omega
      simp [decodeNat, ht, h1]
    · rw [if_neg h1]
      have hs := ofBE_beBytes n
      cases hb : beBytes n with
      | nil => rw [hb] at hs; simp [ofBE] at hs; omega
      | cons x xs => simp only [decodeNat]; rw [← hb]; exact hs

/-- **round trip** -/
theorem C13_create_roundtrip (sender : List UInt8) (nonce : Nat) (hl : sender.length = 20) :
    decodeCreate (rlpCreate sender nonce) = (sender, nonce) := by
  unfold decodeCreate rlpCreate
  have h1 : (sender ++ rlpNat nonce).take 20 = sender := by
    rw [← hl]; exact List.take_left' rfl
  have h2 : (sender ++ rlpNat nonce).drop 20 = rlpNat nonce := by
    rw [← hl]; exact List.drop_left' rfl
  simp only [List.cons_append, List.drop_succ_cons, List.drop_zero]
  rw [h1, h2, decodeNat_rlpNat]

/-- **different pairs, different pre-images** -/
theorem C13_create_preimage_injective (s1 s2 : List UInt8) (n1 n2 : Nat) (h1 : s1.length = 20) (h2 : s2.length = 20)
    (h : rlpCreate s1 n1 = rlpCreate s2 n2) : s1 = s2 ∧ n1 = n2 := by
  have a := C13_create_roundtrip s1 n1 h1
  have b := C13_create_roundtrip s2 n2 h2
  rw [h, b] at a
  exact ⟨(Prod.mk.inj a).1.symm, (Prod.mk.inj a).2.symm⟩

/-- for a hash without collisions on these pre-images the address itself determines the pair -/
theorem C13_create_address_injective (H : List UInt8 → List UInt8)
    (hH : ∀ x y, (H x).drop 12 = (H y).drop 12 → x = y)
    (s1 s2 : List UInt8) (n1 n2 : Nat) (h1 : s1.length = 20) (h2 : s2.length = 20)
    (h : createAddress H s1 n1 = createAddress H s2 n2) : s1 = s2 ∧ n1 = n2 :=
  C13_create_preimage_injective s1 s2 n1 n2 h1 h2 (hH _ _ h)

/-- the registry's addresses `CreateAddress(module, 0), CreateAddress(module, 1), …` have pairwise different
pre-images -/
theorem C17_registry_preimages_distinct (module : List UInt8) (hm : module.length = 20) (i j : Nat) (hij : i ≠ j) :
    rlpCreate module i ≠ rlpCreate module j := by
  intro h
  exact hij (C13_create_preimage_injective module module i j hm hm h).2

/-! test vectors (go-ethereum's own: `crypto.CreateAddress(0x970e8128ab834e8eac17ab8e3812f010678cf791, n)`), evaluated by the
kernel with the Keccak-256 of the model -/
def vecSender : List UInt8 := (Keccak.ofHex "970e8128ab834e8eac17ab8e3812f010678cf791").getD []
example : vecSender.length = 20 := by decide +kernel
example : Keccak.toHex (createAddress Keccak.keccak256 vecSender 0) = "333c3310824b7c685133f2bedb2ca4b8b4df633d" := by decide +kernel
example : Keccak.toHex (createAddress Keccak.keccak256 vecSender 1) = "8bda78331c916a08481428e4b07c96d3e916d165" := by decide +kernel
example : Keccak.toHex (createAddress Keccak.keccak256 vecSender 2) = "c9ddedf451bc62ce88bf9292afb13df35b670699" := by decide +kernel

end Evermint.CreateAddr
