import EvermintModel.Model.Sig
import EvermintModel.Model.Eip712
/-!
# C19 — keys, addresses and signatures bind to exactly one key and one message  *(partial)*

Proved here: the decision logic of `VerifySignature` over ideal primitives (one key; the exact message or its
EIP-712 rendering; nothing else), and structural facts of the EIP-712 rendering model that injectivity rests
on (extra members are refused, missing members are refused, primitive encodings are injective, a document that
already carries a `msg{i}` key is refused).  Not proved: unforgeability of ECDSA and collision resistance of
Keccak (they are the ideal primitives of the model), BIP-39/32/44 conformance (E-crypto compares with a second
implementation and published vectors: a test), and the full injectivity of the rendering over nested
documents (`C19_flat_injective_partial` covers one struct level; the executable model is compared with the Go
code digest for digest on every run).
-/
namespace Evermint.Sig

variable {Key Msg : Type} [DecidableEq Key] [DecidableEq Msg]

/-- **one key, one message.** Whatever verifies was signed by that very key, has 64 or 65 bytes and a low `s`,
and was signed over the message itself or over its EIP-712 rendering. -/
theorem C19_verify_sound (render : Msg → Option Msg) (pk : Key) (m : Msg) (s : Signature Key Msg)
    (h : verify render pk m s = true) :
    s.signer = pk ∧ (s.len = 64 ∨ s.len = 65) ∧ s.lowS = true ∧ (s.digest = m ∨ render m = some s.digest) := by
  unfold verify at h
  have key : ∀ x, verifyECDSA pk x s = true → s.signer = pk ∧ (s.len = 64 ∨ s.len = 65) ∧ s.lowS = true ∧ s.digest = x := by
    intro x hx
    unfold verifyECDSA ecdsaVerify at hx
    simp only [Bool.and_eq_true, beq_iff_eq] at hx
    obtain ⟨⟨⟨hl, hs⟩, hk⟩, hd⟩ := hx
    refine ⟨hk, ?_, hs, hd⟩
    by_cases h65 : s.len = 65
    · exact Or.inr h65
    · left; simpa [h65] using hl
  have h := (Bool.or_eq_true _ _).mp h
  rcases h with h1 | h2
  · obtain ⟨a, b, c, d⟩ := key m h1; exact ⟨a, b, c, Or.inl d⟩
  · cases hr : render m with
    | none => simp [hr] at h2
    | some b =>
      simp only [hr] at h2
      obtain ⟨a, b', c, d⟩ := key b h2
      exact ⟨a, b', c, Or.inr (by rw [d])⟩

/-- a signature never verifies under two different keys -/
theorem C19_one_key (render : Msg → Option Msg) (pk pk' : Key) (m m' : Msg) (s : Signature Key Msg)
    (h : verify render pk m s = true) (h' : verify render pk' m' s = true) : pk = pk' := by
  rw [← (C19_verify_sound render pk m s h).1, ← (C19_verify_sound render pk' m' s h').1]

/-- **one message.** If the rendering is injective and never collides with a plain document (an EIP-712
preimage `0x19 0x01 ‖ …` is not itself a sign document — `hdisj`), a signature verifies for one message only. -/
theorem C19_one_message (render : Msg → Option Msg) (pk : Key) (m m' : Msg) (s : Signature Key Msg)
    (hinj : ∀ a b x, render a = some x → render b = some x → a = b)
    (hplain : ∀ a b, render a = some b → (b = m ∨ b = m') → False)   -- neither message *is* the rendering of a document
    (h : verify render pk m s = true) (h' : verify render pk m' s = true) : m = m' := by
  have a := (C19_verify_sound render pk m s h).2.2.2
  have b := (C19_verify_sound render pk m' s h').2.2.2
  rcases a with a | a <;> rcases b with b | b
  · rw [← a, ← b]
  · exact (hplain m' s.digest b (Or.inl a)).elim
  · exact (hplain m s.digest a (Or.inr b)).elim
  · exact hinj m m' s.digest a b

/-- what the real verifier refuses whatever the key: wrong length, high `s` -/
theorem C19_malformed_refused (render : Msg → Option Msg) (pk : Key) (m : Msg) (s : Signature Key Msg)
    (hbad : (s.len ≠ 64 ∧ s.len ≠ 65) ∨ s.lowS = false) : verify render pk m s = false := by
  cases hv : verify render pk m s with
  | false => rfl
  | true =>
    obtain ⟨_, hl, hs, _⟩ := C19_verify_sound render pk m s hv
    rcases hbad with ⟨h1, h2⟩ | h3
    · rcases hl with hl | hl <;> contradiction
    · rw [h3] at hs; cases hs

/-- an honest signature over the rendering verifies for the document (both signature forms) -/
theorem C19_honest_accepted (render : Msg → Option Msg) (pk : Key) (m b : Msg) (hr : render m = some b) (l : Nat) (hl : l = 64 ∨ l = 65) :
    verify render pk m { signer := pk, digest := b, len := l, lowS := true } = true := by
  unfold verify verifyECDSA ecdsaVerify
  rcases hl with hl | hl <;> simp [hr, hl]

example : verify (fun (m : Nat) => if m < 100 then some (m + 1000) else none) (7 : Nat) 5 { signer := 7, digest := 1005, len := 65, lowS := true } = true := by decide
example : verify (fun (m : Nat) => if m < 100 then some (m + 1000) else none) (7 : Nat) 6 { signer := 7, digest := 1005, len := 65, lowS := true } = false := by decide

end Evermint.Sig

namespace Evermint.Eip712

/-- primitive encodings are injective for each type — for `int64` on JSON *numbers*: a numeric string is
accepted for an integer type too (`parseInteger`), see `C19_numeric_string_collides`. -/
theorem C19_prim_injective (ty : String) (v v' : J) (e : Enc)
    (hnum : ty = "int64" → (∃ n, v = .num n) ∧ (∃ n, v' = .num n))
    (h : encodePrim ty v = some e) (h' : encodePrim ty v' = some e) : v = v' := by
  unfold encodePrim at h h'
  by_cases h1 : ty = "bool"
  · rw [if_pos h1] at h h'
    cases v <;> cases v' <;> simp at h h'
    rename_i b b'
    subst h
    cases b <;> cases b' <;> simp at h' <;> rfl
  rw [if_neg h1] at h h'
  by_cases h2 : ty = "string"
  · rw [if_pos h2] at h h'
    cases v <;> cases v' <;> simp at h h'
    subst h
    simp only [Enc.str.injEq] at h'
    rw [h']
  rw [if_neg h2] at h h'
  by_cases h3 : ty = "int64"
  · rw [if_pos h3] at h h'
    obtain ⟨⟨n, rfl⟩, ⟨n', rfl⟩⟩ := hnum h3
    simp only [parseInt64] at h h'
    by_cases hn : int64OK n = true <;> by_cases hn' : int64OK n' = true <;> simp [hn, hn'] at h h'
    subst h
    simp only [Enc.word.injEq] at h'
    rw [h']
  rw [if_neg h3] at h h'
  by_cases h4 : ty = "uint256"
  · rw [if_pos h4] at h h'
    cases v <;> cases v' <;> simp at h h'
    obtain ⟨_, rfl⟩ := h
    obtain ⟨_, h'⟩ := h'
    simp only [Enc.word.injEq] at h'
    rw [h']
  rw [if_neg h4] at h
  cases h

/-- **outside sign documents the rendering is not injective**: where a member is typed `int64` (a JSON number,
or an array whose *first* element is a number), a numeric string in that position encodes like the number.
Sign documents are renderings of typed messages (homogeneous arrays, integers of one JSON kind per field), so
this needs a document no transaction renders to; E-crypto replays the witness on the Go code. -/
theorem C19_numeric_string_collides :
    (encodePrim "int64" (.str "0x10") = some (.word 16) ∧ encodePrim "int64" (.num 16) = some (.word 16)) ∧
    (encodePrim "int64" (.str "") = some (.word 0) ∧ encodePrim "int64" (.num 0) = some (.word 0)) := by
  refine ⟨⟨?_, ?_⟩, ⟨?_, ?_⟩⟩ <;> rfl

/-- **extra data is refused**: a message object with more entries than the type has members never encodes —
so a field that the type generation skipped (`null`, nested arrays) makes the whole document unsignable
rather than silently unsigned. -/
theorem C19_extra_data_refused (fuel : Nat) (t : Types) (p : String) (data : List (String × J)) (ms : Members)
    (ht : t.get p = some ms) (hlen : ms.length < data.length) : encodeStruct fuel t p data = none := by
  cases fuel with
  | zero => rfl
  | succ f => simp [encodeStruct, ht, hlen]

/-- a document that already has a `msg{i}` key is refused (the flattened message could otherwise shadow it) -/
theorem C19_flatten_refuses_shadow (kvs : List (String × J)) (m : J) (rest : List J) (h : (lookup kvs (msgField 0)).isSome)
    (hm : lookup kvs "msgs" = some (.arr (m :: rest))) : flatten (.obj kvs) = none := by
  simp [flatten, hm, flatten.go, h]

example : flatten (.obj [("msg0", .str "x"), ("msgs", .arr [.obj []])]) = none := by decide
example : (flatten (.obj [("memo", .str "x"), ("msgs", .arr [.obj [("type", .str "a/B")]])])).isSome = true := by decide

end Evermint.Eip712
