import EvermintModel.Model.StateDB
import EvermintModel.Base.KMap
/-!
# C01 — block execution is a deterministic function of prior state and block

The executable models are pure functions of (state, block): nothing in them reads a clock, a random
source or a configuration value.  What has to be *shown* is that the places where the Go code meets a
nondeterministic source are harmless.  The sources are regenerated from /repo on every run
(`Facts/Determinism.lean`: wall-clock reads, `range` over maps, goroutines, rand, getenv in consensus
packages); this file proves the order-independence arguments those obligations rest on:

* the touched / self-destructed account *sets* (Go maps) are consumed through a sorted slice — the
  commit result depends on the set only, not on the order in which the map yields or received its keys
  (`C01_touched_order_irrelevant`, `C01_commit_order_independent`);
* copying a map by ranging over it (access list, transient storage, account tracker copies) yields the
  same map whatever the iteration order (`C01_map_copy_order_independent`);
* the admission price floor in deliver (and re-check) mode does not read the node-local minimum gas
  price (`C01_deliver_ignores_node_config`).
The tie for everything else is E-reexec (twin execution, twin process).
-/
namespace Evermint

/-! ## sorted sets: `setInsert` builds a canonical representation -/

def Sorted (l : List Nat) : Prop := l.Pairwise (· < ·)

theorem mem_setInsert (a x : Nat) : ∀ (l : List Nat), x ∈ setInsert a l ↔ x = a ∨ x ∈ l
  | [] => by simp [setInsert]
  | y :: ys => by
    unfold setInsert
    by_cases h1 : a < y
    · simp [h1]
    · by_cases h2 : a = y
      · subst h2; simp
      · simp only [h1, h2, if_false, List.mem_cons, mem_setInsert a x ys]
        constructor
        · rintro (h | h | h)
          · exact Or.inr (Or.inl h)
          · exact Or.inl h
          · exact Or.inr (Or.inr h)
        · rintro (h | h | h)
          · exact Or.inr (Or.inl h)
          · exact Or.inl h
          · exact Or.inr (Or.inr h)

theorem setInsert_sorted (a : Nat) : ∀ (l : List Nat), Sorted l → Sorted (setInsert a l)
  | [], _ => by simp [setInsert, Sorted]
  | y :: ys, h => by
    unfold setInsert
    unfold Sorted at h ⊢
    rw [List.pairwise_cons] at h
    by_cases h1 : a < y
    · simp only [h1, if_true, List.pairwise_cons]
      refine ⟨?_, h.1, h.2⟩
      intro z hz
      simp only [List.mem_cons] at hz
      rcases hz with rfl | hz
      · exact h1
      · exact Nat.lt_trans h1 (h.1 z hz)
    · by_cases h2 : a = y
      · subst h2
        rw [if_neg h1, if_pos rfl, List.pairwise_cons]; exact h
      · simp only [h1, h2, if_false, List.pairwise_cons]
        refine ⟨?_, setInsert_sorted a ys h.2⟩
        intro z hz
        rcases (mem_setInsert a z ys).1 hz with rfl | hz
        · omega
        · exact h.1 z hz

/-- two strictly sorted lists with the same members are the same list -/
theorem sorted_ext : ∀ (l1 l2 : List Nat), Sorted l1 → Sorted l2 → (∀ x, x ∈ l1 ↔ x ∈ l2) → l1 = l2
  | [], [], _, _, _ => rfl
  | [], y :: ys, _, _, h => by have := (h y).2 (List.mem_cons_self ..); cases this
  | x :: xs, [], _, _, h => by have := (h x).1 (List.mem_cons_self ..); cases this
  | x :: xs, y :: ys, h1, h2, h => by
    unfold Sorted at h1 h2
    rw [List.pairwise_cons] at h1 h2
    have hxy : x = y := by
      have a1 := (h x).1 (List.mem_cons_self ..)
      have a2 := (h y).2 (List.mem_cons_self ..)
      simp only [List.mem_cons] at a1 a2
      rcases a1 with e | a1
      · exact e
      · rcases a2 with e | a2
        · exact e.symm
        · have := h2.1 x a1; have := h1.1 y a2; omega
    subst hxy
    congr 1
    apply sorted_ext xs ys h1.2 h2.2
    intro z
    constructor
    · intro hz
      have := (h z).1 (List.mem_cons_of_mem _ hz)
      simp only [List.mem_cons] at this
      rcases this with e | this
      · subst e; have := h1.1 z hz; omega
      · exact this
    · intro hz
      have := (h z).2 (List.mem_cons_of_mem _ hz)
      simp only [List.mem_cons] at this
      rcases this with e | this
      · subst e; have := h2.1 z hz; omega
      · exact this

/-- the canonical (sorted, duplicate-free) form of a collection of addresses -/
def canon (l : List Nat) : List Nat := l.foldr setInsert []

theorem canon_sorted : ∀ l, Sorted (canon l)
  | [] => by simp [canon, Sorted]
  | a :: l => by
    show Sorted (setInsert a (canon l))
    exact setInsert_sorted a _ (canon_sorted l)

theorem mem_canon (x : Nat) : ∀ l, x ∈ canon l ↔ x ∈ l
  | [] => by simp [canon]
  | a :: l => by
    show x ∈ setInsert a (canon l) ↔ _
    rw [mem_setInsert, mem_canon x l]; simp

/-- **the canonical form depends on the set only**, not on order or multiplicity -/
theorem canon_perm (l1 l2 : List Nat) (h : ∀ x, x ∈ l1 ↔ x ∈ l2) : canon l1 = canon l2 :=
  sorted_ext _ _ (canon_sorted l1) (canon_sorted l2) (fun x => by rw [mem_canon, mem_canon, h x])

/-- touching accounts in any order leaves the same journal entry -/
theorem touch_touched (j : Journal) (as : List Nat) (hs : Sorted j.touched) :
    Sorted (as.foldl touch j).touched ∧ ∀ x, x ∈ (as.foldl touch j).touched ↔ x ∈ as ∨ x ∈ j.touched := by
  induction as generalizing j with
  | nil => exact ⟨hs, fun x => by simp⟩
  | cons a as ih =>
    simp only [List.foldl_cons]
    have h1 : Sorted (touch j a).touched := setInsert_sorted a _ hs
    obtain ⟨i1, i2⟩ := ih (touch j a) h1
    refine ⟨i1, fun x => ?_⟩
    rw [i2 x]
    show x ∈ as ∨ x ∈ setInsert a j.touched ↔ _
    rw [mem_setInsert]
    simp only [List.mem_cons]
    constructor
    · rintro (h | h | h)
      · exact Or.inl (Or.inr h)
      · exact Or.inl (Or.inl h)
      · exact Or.inr h
    · rintro ((h | h) | h)
      · exact Or.inr (Or.inl h)
      · exact Or.inl h
      · exact Or.inr (Or.inr h)

/-- **C01 (touched set).** Two executions that touch the same accounts — in any order, any number of
times, as a Go map would record them — end with the same journal entry. -/
theorem C01_touched_order_irrelevant (j : Journal) (as bs : List Nat) (hs : Sorted j.touched)
    (hsame : ∀ x, x ∈ as ↔ x ∈ bs) : (as.foldl touch j).touched = (bs.foldl touch j).touched := by
  obtain ⟨a1, a2⟩ := touch_touched j as hs
  obtain ⟨b1, b2⟩ := touch_touched j bs hs
  apply sorted_ext _ _ a1 b1
  intro x; rw [a2 x, b2 x, hsame x]

/-- **C01 (commit).** The commit loop ranges the sorted slice of the touched set: whatever order the map
iteration produced, the committed world (accounts destroyed, coins burnt, events emitted) is the same. -/
theorem C01_commit_order_independent (de : Bool) (sd : List Addr) (order1 order2 : List Addr) (w : World)
    (hsame : ∀ x, x ∈ order1 ↔ x ∈ order2) :
    commitLoop de sd (canon order1) w = commitLoop de sd (canon order2) w := by
  rw [canon_perm order1 order2 hsame]

/-! ## copying a map by ranging over it -/

/-- the entries of a Go map: distinct keys -/
def DistinctKeys {K V : Type} (es : List (K × V)) : Prop := (es.map (·.1)).Nodup

theorem copy_get {K V : Type} [DecidableEq K] (es : List (K × V)) (m : KMap K V) (k : K) (hd : DistinctKeys es) :
    (es.foldl (fun m e => m.set e.1 e.2) m).get k =
      match es.find? (fun e => decide (e.1 = k)) with
      | some e => e.2
      | none => m.get k := by
  induction es generalizing m with
  | nil => rfl
  | cons e es ih =>
    unfold DistinctKeys at hd
    simp only [List.map_cons, List.nodup_cons] at hd
    simp only [List.foldl_cons]
    rw [ih (m.set e.1 e.2) hd.2]
    by_cases hk : e.1 = k
    · have hnone : es.find? (fun e' => decide (e'.1 = k)) = none := by
        rw [List.find?_eq_none]
        intro e' he' hc
        simp only [decide_eq_true_eq] at hc
        apply hd.1
        rw [hk, ← hc]
        exact List.mem_map_of_mem he'
      simp [List.find?_cons, hk, hnone]
    · simp only [List.find?_cons, hk, decide_false]
      cases es.find? (fun e' => decide (e'.1 = k)) with
      | some x => rfl
      | none => simp only []; exact KMap.get_set_ne _ _ _ _ (fun h => hk h.symm)

theorem find_perm {K V : Type} [DecidableEq K] (es es' : List (K × V)) (k : K) (hp : es.Perm es') (hd : DistinctKeys es) :
    (es.find? (fun e => decide (e.1 = k))).map (·.2) = (es'.find? (fun e => decide (e.1 = k))).map (·.2) := by
  induction hp with
  | nil => rfl
  | cons x _ ih =>
    unfold DistinctKeys at hd
    simp only [List.map_cons, List.nodup_cons] at hd
    simp only [List.find?_cons]
    by_cases hx : x.1 = k
    · simp [hx]
    · simp only [hx, decide_false]; exact ih hd.2
  | swap x y l =>
    unfold DistinctKeys at hd
    simp only [List.map_cons, List.nodup_cons, List.mem_cons, not_or] at hd
    simp only [List.find?_cons]
    by_cases hx : x.1 = k <;> by_cases hy : y.1 = k
    · exfalso; exact hd.1.1 (hy.trans hx.symm)
    · simp [hx, hy]
    · simp [hx, hy]
    · simp [hx, hy]
  | @trans l1 l2 l3 h1 _ ih1 ih2 =>
    have hd2 : DistinctKeys l2 := by
      unfold DistinctKeys at hd ⊢
      exact (h1.map _).nodup_iff.1 hd
    exact (ih1 hd).trans (ih2 hd2)

/-- **C01 (map copies).** `Copy()` of the access list, the transient storage and the account trackers
ranges over a Go map and inserts into a fresh one: the result is the same map for every iteration order. -/
theorem C01_map_copy_order_independent {K V : Type} [DecidableEq K] (es es' : List (K × V)) (m : KMap K V)
    (hp : es.Perm es') (hd : DistinctKeys es) (k : K) :
    (es.foldl (fun m e => m.set e.1 e.2) m).get k = (es'.foldl (fun m e => m.set e.1 e.2) m).get k := by
  have hd' : DistinctKeys es' := by
    unfold DistinctKeys at hd ⊢
    exact (hp.map _).nodup_iff.1 hd
  rw [copy_get es m k hd, copy_get es' m k hd']
  have := find_perm es es' k hp hd
  cases h1 : es.find? (fun e => decide (e.1 = k)) <;> cases h2 : es'.find? (fun e => decide (e.1 = k)) <;>
    simp_all

/-! ## node-local configuration -/

inductive ExecMode where
  | check | recheck | simulate | deliver
deriving DecidableEq

/-- `getMinGasPricesAllowed`: base fee, the validator's own minimum only in check (not re-check) mode,
then the global minimum -/
def minGasPricesAllowed (mode : ExecMode) (baseFee nodeMin globalMin : Nat) : Nat :=
  let a := if mode = .check then max baseFee nodeMin else baseFee
  max a globalMin

/-- **C01 (node configuration).** Outside mempool admission the price floor is a function of consensus
state only. -/
theorem C01_deliver_ignores_node_config (mode : ExecMode) (hm : mode ≠ .check) (base n1 n2 g : Nat) :
    minGasPricesAllowed mode base n1 g = minGasPricesAllowed mode base n2 g := by
  unfold minGasPricesAllowed; simp [hm]

/-! non-vacuity -/
example : canon [5, 3, 9, 3] = canon [9, 5, 3] := by decide
example : minGasPricesAllowed .check 7 100 3 ≠ minGasPricesAllowed .check 7 5 3 := by decide

end Evermint
