import EvermintModel.Model.VAuth
import EvermintModel.Properties.C07
/-!
# C16 — vesting accounts only for proven EOAs; proofs unforgeable and final

The routing part ("a user transaction can create a vesting account only for an address that already
has a stored proof", at any nesting depth) is `Evermint.Ante.C16_gate` in `Properties/C07.lean`.
This file covers the proof store.
-/
namespace Evermint.VAuth
open Evermint

/-- every stored proof carries a signature that recovers, for the module's fixed message, to the very
address it is stored under -/
def Sound (s : State) : Prop := ∀ a sg, s.proofs.get a = some sg → sg.recovers = some a

theorem submit_cases (s : State) (m : Msg) :
    ((submit s m).2 ≠ .ok ∧ (submit s m).1 = s) ∨
    ((submit s m).2 = .ok ∧ validateBasic m = true ∧ s.proofs.get m.account = none ∧ cost ≤ s.bal.get m.submitter ∧
      m.sig.lower = true ∧
      (submit s m).1 = { proofs := s.proofs.set m.account (some m.sig),
                         bal := s.bal.set m.submitter (s.bal.get m.submitter - cost), supply := s.supply - cost }) := by
  unfold submit
  by_cases h1 : validateBasic m = true
  · cases h2 : s.proofs.get m.account with
    | some sg => left; simp [h1, h2]
    | none =>
      by_cases h3 : s.bal.get m.submitter < cost
      · left; simp [h1, h2, h3]
      · cases h4 : m.sig.lower with
        | false => left; simp [h1, h2, h3, h4]
        | true => right; simp [h1, h2, h3, h4]; omega
  · left; simp [h1]

/-- **C16 (a rejected submission stores nothing and burns nothing).** -/
theorem C16_reject_noop (s : State) (m : Msg) (h : (submit s m).2 ≠ .ok) : (submit s m).1 = s := by
  rcases submit_cases s m with ⟨_, h2⟩ | ⟨h1, _⟩
  · exact h2
  · exact absurd h1 h

/-- **C16 (cost).** A successful submission costs the submitter exactly the fixed fee and the fee is
burnt (total supply falls by it); nobody else's balance moves. -/
theorem C16_cost (s : State) (m : Msg) (h : (submit s m).2 = .ok) :
    (submit s m).1.bal.get m.submitter + cost = s.bal.get m.submitter ∧
    (∀ a, a ≠ m.submitter → (submit s m).1.bal.get a = s.bal.get a) ∧
    (submit s m).1.supply = s.supply - cost := by
  rcases submit_cases s m with ⟨h1, _⟩ | ⟨_, _, _, hc, _, he⟩
  · exact absurd h h1
  · rw [he]
    refine ⟨by simp; omega, fun a ha => by simp [FMap.get_set_ne _ _ _ _ ha], rfl⟩

/-- **C16 (a proof is stored only with a signature of the key controlling the address).** -/
theorem C16_stored_signed (s : State) (m : Msg) (h : (submit s m).2 = .ok) :
    (submit s m).1.proofs.get m.account = some m.sig ∧ m.sig.recovers = some m.account ∧ m.submitter ≠ m.account := by
  rcases submit_cases s m with ⟨h1, _⟩ | ⟨_, hv, _, _, _, he⟩
  · exact absurd h h1
  · rw [he]
    unfold validateBasic at hv
    simp only [Bool.and_eq_true, bne_iff_ne, ne_eq, beq_iff_eq] at hv
    exact ⟨by simp, hv.2, hv.1.1⟩

theorem sound_step (s : State) (m : Msg) (hs : Sound s) : Sound (submit s m).1 := by
  rcases submit_cases s m with ⟨_, h2⟩ | ⟨_, hv, _, _, _, he⟩
  · rw [h2]; exact hs
  · rw [he]
    intro a sg hg
    by_cases ha : a = m.account
    · subst ha
      simp at hg
      subst hg
      unfold validateBasic at hv
      simp only [Bool.and_eq_true, beq_iff_eq] at hv
      exact hv.2
    · simp only [FMap.get_set_ne _ _ _ _ ha] at hg
      exact hs a sg hg

/-- **C16 (unforgeable, over every history).** Starting from a store that is sound (genesis has no
proofs), after any sequence of submissions every proven address has a signature recovering to it. -/
theorem C16_proof_sound (s : State) (ms : List Msg) (hs : Sound s) : Sound (run s ms) := by
  induction ms generalizing s with
  | nil => exact hs
  | cons m ms ih => exact ih _ (sound_step s m hs)

theorem final_step (s : State) (m : Msg) (a : Nat) (sg : Sig) (h : s.proofs.get a = some sg) :
    (submit s m).1.proofs.get a = some sg := by
  rcases submit_cases s m with ⟨_, h2⟩ | ⟨_, _, hn, _, _, he⟩
  · rw [h2]; exact h
  · rw [he]
    have ha : a ≠ m.account := by
      intro e; subst e; rw [h] at hn; cases hn
    simp [FMap.get_set_ne _ _ _ _ ha, h]

/-- **C16 (final).** A proven address can never be proved again or overwritten: its stored proof is the
same after any later history. -/
theorem C16_final (s : State) (ms : List Msg) (a : Nat) (sg : Sig) (h : s.proofs.get a = some sg) :
    (run s ms).proofs.get a = some sg := by
  induction ms generalizing s with
  | nil => exact h
  | cons m ms ih => exact ih _ (final_step s m a sg h)

/-- the empty store is sound -/
theorem genesis_sound (bal : FMap Nat) (sup : Nat) : Sound { proofs := FMap.empty none, bal := bal, supply := sup } := by
  intro a sg h; simp [FMap.get, FMap.empty] at h

/-! non-vacuity: a history with an accepted, a forged, a repeated and an upper-case submission -/
def g0 : State := { proofs := FMap.empty none, bal := (FMap.empty 0).set 1 (3 * cost), supply := 10 * cost }
def goodSig : Sig := { wellFormed := true, recovers := some 7, lower := true }
example : (submit g0 { submitter := 1, account := 7, sig := goodSig }).2 = .ok := by decide
example : (submit g0 { submitter := 1, account := 8, sig := goodSig }).2 = .basic := by decide
example : (submit (submit g0 { submitter := 1, account := 7, sig := goodSig }).1 { submitter := 1, account := 7, sig := goodSig }).2 = .conflict := by decide
example : (submit g0 { submitter := 1, account := 7, sig := { goodSig with lower := false } }).2 = .panic := by decide
example : (submit g0 { submitter := 2, account := 7, sig := goodSig }).2 = .funds := by decide

end Evermint.VAuth
