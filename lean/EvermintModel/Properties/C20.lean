import EvermintModel.Properties.C06
import EvermintModel.Properties.C09
import EvermintModel.Properties.C13
/-!
# C20 — no user input can crash a node or halt block production  *(partial)*

Model level.  (a) **Isolation**: in the block model (`Model/Block.lean`, tied to the real `FinalizeBlock` by
E-block) a transaction that is refused — by the ante handler, or because the block gas is exhausted — writes
nothing, so the results of every other transaction of the block are exactly those of the block without it
(`C20_isolation`), and two different refused transactions at one position are indistinguishable for all the
others (`C20_isolation_replace`).  A transaction that fails *after* the ante handler keeps exactly its ante
effects (fee, sequence, transient counters): `C05` / `C06`.  (b) **Totality of end-of-block processing**: the
base-fee computation never divides by zero and fits 256 bits for every consensus `MaxGas` (`C09_total`,
`C09_total_no_divzero`), and the transient receipt table always has one slot per counted transaction, so the
bloom computation of `EndBlock` finds every receipt (`C13_endBlock_total`).
The event system's channel protocol is `Properties/C20Conc.lean`.

Not covered by theorems: crash-freedom of decoding and of the SDK / CometBFT / go-ethereum code for arbitrary
bytes — E-crash explores it (labelled exploration), it is not proved.
-/
namespace Evermint.Block

theorem runItems_append (s : BState) (a b : List Item) :
    runItems s (a ++ b) = ((runItems (runItems s a).1 b).1, (runItems s a).2 ++ (runItems (runItems s a).1 b).2) := by
  induction a generalizing s with
  | nil => simp [runItems]
  | cons i is ih =>
    simp only [List.cons_append, runItems]
    rw [ih]
    cases (stepItem s i).2 <;> simp

/-- a refused transaction (ante handler returned an error) writes nothing -/
theorem C20_rejected_is_noop (s : BState) (t : EthTx) (x : Exec) (code : String)
    (h0 : blockExhausted s = false) (h1 : ¬ t.gasLimit < 20999) (hr : anteReject s t = some code)
    (hc : code ≠ antePanicCode) :
    (stepEth s t x).1 = s := by
  unfold stepEth
  simp [h0, h1, hr, hc]

/-- a transaction on which the ante handler panics (zero effective fee: the fee checker indexes an empty coin list; the
panic is recovered by `runTx`) writes nothing but the block gas meter, which is charged the reading of the context's
meter at the panic — as for every transaction that consumed gas, later transactions see that much less block gas -/
theorem C20_ante_panic_charges_block_gas_only (s : BState) (t : EthTx) (x : Exec)
    (h0 : blockExhausted s = false) (h1 : ¬ t.gasLimit < 20999) (hr : anteReject s t = some antePanicCode) :
    (stepEth s t x).1 = { s with blockGas := s.blockGas + x.meterGas } := by
  unfold stepEth
  simp [h0, h1, hr]

/-- a transaction offered after the block gas is exhausted writes nothing -/
theorem C20_dropped_is_noop (s : BState) (t : EthTx) (x : Exec) (h0 : blockExhausted s = true) : (stepEth s t x).1 = s := by
  unfold stepEth
  simp [h0]

/-- **isolation.** If the transaction at some position leaves the block state as it found it (refused /
dropped: the two lemmas above), then the final state and the results of all the other transactions — before
and after it — are exactly those of the block without it. -/
theorem C20_isolation (s : BState) (pre post : List Item) (bad : EthTx) (xb : Exec)
    (hnoop : (stepEth (runItems s pre).1 bad xb).1 = (runItems s pre).1) :
    (runItems s (pre ++ .tx bad xb :: post)).1 = (runItems s (pre ++ post)).1 ∧
    (runItems s (pre ++ .tx bad xb :: post)).2 =
      (runItems s pre).2 ++ (bad, (stepEth (runItems s pre).1 bad xb).2) :: (runItems (runItems s pre).1 post).2 ∧
    (runItems s (pre ++ post)).2 = (runItems s pre).2 ++ (runItems (runItems s pre).1 post).2 := by
  rw [runItems_append, runItems_append]
  simp [runItems, stepItem, hnoop]

/-- two different refused transactions at the same position: every other result is the same -/
theorem C20_isolation_replace (s : BState) (pre post : List Item) (b1 b2 : EthTx) (x1 x2 : Exec)
    (h1 : (stepEth (runItems s pre).1 b1 x1).1 = (runItems s pre).1)
    (h2 : (stepEth (runItems s pre).1 b2 x2).1 = (runItems s pre).1) :
    (runItems s (pre ++ .tx b1 x1 :: post)).1 = (runItems s (pre ++ .tx b2 x2 :: post)).1 ∧
    ∃ o1 o2, (runItems s (pre ++ .tx b1 x1 :: post)).2 = (runItems s pre).2 ++ (b1, o1) :: (runItems (runItems s pre).1 post).2 ∧
             (runItems s (pre ++ .tx b2 x2 :: post)).2 = (runItems s pre).2 ++ (b2, o2) :: (runItems (runItems s pre).1 post).2 := by
  obtain ⟨a1, a2, _⟩ := C20_isolation s pre post b1 x1 h1
  obtain ⟨c1, c2, _⟩ := C20_isolation s pre post b2 x2 h2
  exact ⟨a1.trans c1.symm, _, _, a2, c2⟩

end Evermint.Block
