import EvermintModel.Proofs.World
import EvermintModel.Model.StateDB
import EvermintModel.Properties.C05
/-!
# C04 — Ethereum transactions never create coins

Two layers.
* **Bank / StateDB layer** (`World`): what every balance primitive the interpreter can reach
  (`AddBalance` = mint + module→account, `SubBalance` = account→module + burn, `core.Transfer` =
  Sub;Add, the gas refund + fee-collector burn pair, precompile bank sends) does to supply and to the
  EVM module account — exact deltas, for all amounts.  That these are the *only* callers of
  Add/SubBalance in the fork's `core/vm` is the regenerated call-site census (Facts/C04).
* **Transaction layer** (`Block.stepEth`): for every transaction and outcome class the supply delta
  is exactly minus the coins the program explicitly destroyed, never positive, and sender +
  collector deltas sum to minus the value that left the sender.
-/
namespace Evermint
open World

/-- `core.Transfer(db, from, to, n)` = `SubBalance(from, n); AddBalance(to, n)` -/
def transfer (w : World) (f t : Addr) (n : Nat) : Except String World := do
  let w1 ← w.burnFrom f evmDenom n
  w1.mintTo t evmDenom n

theorem evmDenom_lt : evmDenom < 4096 := by decide

/-- a value transfer conserves the supply of every denomination and leaves the EVM module account
as it was (bank invariant `balance ≤ supply` as hypothesis) -/
theorem C04_transfer_conserves {w w' : World} {f t : Addr} {n : Nat}
    (h : transfer w f t n = .ok w') (hf : f ≠ w.evmMod) (ht : t ≠ w.evmMod)
    (hinv : w.balOf f evmDenom ≤ w.supply.get evmDenom) :
    (∀ d, w'.supply.get d = w.supply.get d) ∧ w'.balOf w.evmMod evmDenom = w.balOf w.evmMod evmDenom := by
  unfold transfer at h
  simp only [bind, Except.bind] at h
  split at h
  · cases h
  · rename_i w1 h1
    have e1 := burnFrom_effect evmDenom_lt h1 hf
    have e2 := mintTo_effect evmDenom_lt h (by rw [e1.2.2.2.2.2]; exact ht)
    rw [e1.2.2.2.2.2] at e2
    constructor
    · intro d
      by_cases hd : d = evmDenom
      · subst hd; rw [e2.1, e1.1]; omega
      · rw [e2.2.1 d hd, e1.2.1 d hd]
    · rw [e2.2.2.1, e1.2.2.1]

/-- `AddBalance`: supply + n, module account unchanged -/
theorem C04_addBalance {w w' : World} {a : Addr} {n : Nat} (h : w.mintTo a evmDenom n = .ok w') (ha : a ≠ w.evmMod) :
    w'.supply.get evmDenom = w.supply.get evmDenom + n ∧ w'.balOf w.evmMod evmDenom = w.balOf w.evmMod evmDenom :=
  let e := mintTo_effect evmDenom_lt h ha; ⟨e.1, e.2.2.1⟩

/-- `SubBalance`: supply − n, module account unchanged -/
theorem C04_subBalance {w w' : World} {a : Addr} {n : Nat} (h : w.burnFrom a evmDenom n = .ok w') (ha : a ≠ w.evmMod) :
    w'.supply.get evmDenom = w.supply.get evmDenom - n ∧ w'.balOf w.evmMod evmDenom = w.balOf w.evmMod evmDenom :=
  let e := burnFrom_effect evmDenom_lt h ha; ⟨e.1, e.2.2.1⟩

/-- the gas refund (minted to the sender) together with the matching burn from the fee collector
(`EthereumTx`, after `ApplyTransaction`) conserves supply: the refund is a transfer collector→sender -/
theorem C04_refund_conserves {w w1 w2 : World} {sender collector : Addr} {r : Nat}
    (h1 : w.mintTo sender evmDenom r = .ok w1) (h2 : w1.burnFrom collector evmDenom r = .ok w2)
    (hs : sender ≠ w.evmMod) (hc : collector ≠ w.evmMod) :
    w2.supply.get evmDenom = w.supply.get evmDenom ∧ w2.balOf w.evmMod evmDenom = w.balOf w.evmMod evmDenom := by
  have e1 := mintTo_effect evmDenom_lt h1 hs
  have e2 := burnFrom_effect evmDenom_lt h2 (by rw [e1.2.2.2.2]; exact hc)
  rw [e1.2.2.2.2] at e2
  exact ⟨by rw [e2.1, e1.1]; omega, by rw [e2.2.2.1, e1.2.2.1]⟩

/-- the *unfixed* refund (pinned commit): minted, nothing burnt — supply grows by the refund.
Kept as the regression record of F3. -/
theorem C04_refund_inflated_before_fix {w w1 : World} {sender : Addr} {r : Nat}
    (h1 : w.mintTo sender evmDenom r = .ok w1) (hs : sender ≠ w.evmMod) :
    w1.supply.get evmDenom = w.supply.get evmDenom + r := (mintTo_effect evmDenom_lt h1 hs).1

/-! ### The EVM module account always ends with a zero balance -/

/-- balance-moving primitives reachable from the interpreter and from precompiles -/
inductive BalOp where
  | add (a : Addr) (n : Nat)                     -- AddBalance
  | sub (a : Addr) (n : Nat)                     -- SubBalance
  | send (f t : Addr) (d : Denom) (n : Nat)      -- precompile bank send (keeper level)

def BalOp.run (w : World) : BalOp → Except String World
  | .add a n => w.mintTo a evmDenom n
  | .sub a n => w.burnFrom a evmDenom n
  | .send f t d n => w.sendCoins f t d n

/-- no operation names the EVM module account as the account acted upon; `AddBalance` refuses it
itself (it is on the bank block-list), precompile sends refuse block-listed recipients (F16 fix) -/
def BalOp.avoids (m : Addr) : BalOp → Prop
  | .add a _ => a ≠ m
  | .sub a _ => a ≠ m
  | .send f t d _ => f ≠ m ∧ t ≠ m ∧ f ≠ t ∧ d < 4096

theorem balop_evmMod {w w' : World} {o : BalOp} (h : o.run w = .ok w') (ha : o.avoids w.evmMod) :
    w'.balOf w.evmMod evmDenom = w.balOf w.evmMod evmDenom ∧ w'.evmMod = w.evmMod := by
  cases o with
  | add a n => let e := mintTo_effect evmDenom_lt h ha; exact ⟨e.2.2.1, e.2.2.2.2⟩
  | sub a n => let e := burnFrom_effect evmDenom_lt h ha; exact ⟨e.2.2.1, e.2.2.2.2.2⟩
  | send f t d n =>
    obtain ⟨hf, ht, hft, hd⟩ := ha
    have e := sendCoins_bal hd h hft
    exact ⟨e.2.2.2 _ _ evmDenom_lt (Or.inl ⟨Ne.symm hf, Ne.symm ht⟩), sendCoins_evmMod h⟩

def runOps : World → List BalOp → Except String World
  | w, [] => .ok w
  | w, o :: os => match o.run w with
    | .error e => .error e
    | .ok w' => runOps w' os

/-- **evm-module-zero**: over every sequence of balance operations (any length, any amounts) the
EVM module account ends with exactly the balance it started with — zero on every reachable state -/
theorem C04_evmModule_zero : ∀ (os : List BalOp) (w w' : World),
    (∀ o ∈ os, o.avoids w.evmMod) → runOps w os = .ok w' →
    w'.balOf w.evmMod evmDenom = w.balOf w.evmMod evmDenom
  | [], w, w', _, h => by simp only [runOps] at h; injection h with h; rw [h]
  | o :: os, w, w', ha, h => by
    simp only [runOps] at h
    split at h
    · cases h
    · rename_i w1 h1
      have e := balop_evmMod h1 (ha o (List.mem_cons_self ..))
      have := C04_evmModule_zero os w1 w' (by intro o' ho'; rw [e.2]; exact ha o' (List.mem_cons_of_mem _ ho')) h
      rw [e.2] at this
      rw [this, e.1]

namespace Block

/-- **no coins are created** by any transaction in any outcome class; supply falls by exactly the
coins the program explicitly destroyed, and only when it succeeded -/
theorem C04_supply (s : BState) (t : EthTx) (x : Exec) :
    (stepEth s t x).2.dSupply ≤ 0 ∧
    (stepEth s t x).2.dSupply = -(((if (stepEth s t x).2.cls = .ok then t.sdBurn else 0) : Nat) : Int) := by
  rcases stepEth_cases s t x with ⟨_, h⟩ | ⟨_, _, h⟩ | ⟨_, _, code, _, _, _, h⟩ | ⟨_, _, _, _, h⟩ | ⟨_, _, _, _, _, h⟩ |
    ⟨_, _, _, _, _, _, h⟩ | ⟨_, _, _, _, _, _, h⟩ <;> rw [h]
  · simp [noOut]
  · simp [noOut]
  · simp [noOut]
  · simp [failedOut, noOut]
  · simp [failedOut, noOut]
  · simp [failedOut, noOut]
  · cases hv : x.vmErr <;> simp [committedOut, hv] <;> omega

/-- sender and fee collector together lose exactly the value that left the sender: every wei the
sender pays in fees is a wei the collector gains -/
theorem C04_sender_collector (s : BState) (t : EthTx) (x : Exec) (hx : x.gasBefore ≤ t.gasLimit)
    (hself : t.toWallet ≠ some t.sender) :
    (stepEth s t x).2.dSender + (stepEth s t x).2.dCollector =
      -((valueMoved t x (stepEth s t x).2.cls : Nat) : Int) := by
  cases hadm : admitted (stepEth s t x).2.cls with
  | false =>
    have h := C05_rejected_free s t x hadm
    rw [h.1, h.2.1]
    cases hc : (stepEth s t x).2.cls <;> simp [hc, admitted, valueMoved] at hadm ⊢
  | true =>
    rw [C05_charge s t x hx hself hadm, C05_collector_gain s t x hx hadm]
    push_cast; omega

end Block

/-! ## Non-vacuity -/
def exW : World :=
  { acc := ((FMap.empty none).set 1 (some ⟨.base, 0, 1⟩)).set 9 (some ⟨.module, 0, 2⟩),
    bal := (FMap.empty 0).set (pair 1 0) 100, supply := (FMap.empty 0).set 0 100, codeHash := FMap.empty 0,
    storage := FMap.empty none, allow := FMap.empty 0, nextAcc := 3, events := 0, now := 0, evmMod := 9, blocked := [9] }
example : (transfer exW 1 2 30).toOption.map (fun w => (w.balOf 1 0, w.balOf 2 0, w.balOf 9 0, w.supply.get 0)) = some (70, 30, 0, 100) := by
  decide +kernel
example : (exW.mintTo 9 0 5).toOption.isNone = true := by decide +kernel   -- AddBalance to the module account is refused

end Evermint
