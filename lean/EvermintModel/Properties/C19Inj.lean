import EvermintModel.Model.Eip712
import EvermintModel.Properties.C19
/-!
# C19 — the EIP-712 rendering is injective on sign documents

`C19_rendering_injective`: two message objects whose struct encodings coincide (in the symbolic encoding `Enc`,
i.e. for an ideal hash) are the same JSON value — objects compared as maps — provided each is *canonical*
(distinct keys at every level, as amino JSON is), each type map lists every member name once, and each document
is *well typed* by its own schema (`wellTyped`: a member typed `int64` holds a JSON number, `string` a string,
`bool` a boolean, arrays are homogeneous).  The last hypothesis is what the type generation of
`ethereum/eip712/types.go` provides for the schema it derives from the document itself when arrays are homogeneous
(every real sign document is: arrays of a typed message); it is executable and the driver evaluates it, together
with the other two, on every document of E-crypto.  Without it the statement is false
(`C19_numeric_string_collides`).
-/
namespace Evermint.Eip712

/-! ## same JSON value, objects compared as maps -/

mutual
  def Same : J → J → Prop
    | .null, .null => True
    | .bool a, .bool b => a = b
    | .num a, .num b => a = b
    | .float, .float => True
    | .str a, .str b => a = b
    | .arr xs, .arr ys => SameList xs ys
    | .obj a, .obj b => a.length = b.length ∧ SameFields a b
    | _, _ => False
  def SameList : List J → List J → Prop
    | [], [] => True
    | x :: xs, y :: ys => Same x y ∧ SameList xs ys
    | _, _ => False
  def SameFields : List (String × J) → List (String × J) → Prop
    | [], _ => True
    | (k, v) :: rest, b => (∃ y, lookup b k = some y ∧ Same v y) ∧ SameFields rest b
end

mutual
  def Canon : J → Prop
    | .arr xs => CanonList xs
    | .obj kvs => (kvs.map (·.1)).Nodup ∧ CanonFields kvs
    | _ => True
  def CanonList : List J → Prop
    | [] => True
    | x :: xs => Canon x ∧ CanonList xs
  def CanonFields : List (String × J) → Prop
    | [] => True
    | (_, v) :: r => Canon v ∧ CanonFields r
end

/-! ## well-typedness of a document by a schema (executable) -/

def kindOK (ty : String) (v : J) : Bool :=
  match v with
  | .bool _ => ty == "bool"
  | .num _ => ty == "int64" || ty == "uint256"
  | .float => ty == "int64"
  | .str _ => ty == "string"
  | _ => false

def itemTyped (recur : String → List (String × J) → Bool) (t : Types) (pt : String) (item : J) : Bool :=
  if t.has pt then (match item with | .obj kvs => recur pt kvs | _ => true) else kindOK pt item

def fieldTyped (recur : String → List (String × J) → Bool) (t : Types) (data : List (String × J)) (name ty : String) : Bool :=
  match lookup data name with
  | none => true
  | some v =>
    if ty.endsWith "[]" then (match v with | .arr items => items.all (itemTyped recur t (elemType ty)) | _ => true)
    else if t.has ty then (match v with | .obj kvs => recur ty kvs | _ => true)
    else kindOK ty v

def wellTyped : Nat → Types → String → List (String × J) → Bool
  | 0, _, _, _ => true
  | f + 1, t, p, data =>
    match t.get p with
    | none => true
    | some ms => ms.all (fun m => fieldTyped (wellTyped f t) t data m.1 m.2)

def MembersNodup (t : Types) : Prop := ∀ n ms, t.get n = some ms → (ms.map (·.1)).Nodup

def membersNodup (t : Types) : Bool := t.all (fun e => (e.2.map (·.1)).eraseDups.length == e.2.length)


/-! ## list lemmas -/


theorem nodup_subset_length {α : Type} [DecidableEq α] : ∀ (l₁ l₂ : List α), l₁.Nodup → l₁ ⊆ l₂ → l₁.length ≤ l₂.length
  | [], _, _, _ => Nat.zero_le _
  | a :: l₁, l₂, hn, hs => by
    have ha : a ∈ l₂ := hs (List.mem_cons_self ..)
    have hn' := List.nodup_cons.1 hn
    have hsub : l₁ ⊆ l₂.erase a := by
      intro x hx
      have hxa : x ≠ a := fun h => hn'.1 (h ▸ hx)
      exact (List.mem_erase_of_ne hxa).2 (hs (List.mem_cons_of_mem _ hx))
    have ih := nodup_subset_length l₁ (l₂.erase a) hn'.2 hsub
    have hl := List.length_erase_of_mem ha
    have hpos : 0 < l₂.length := List.length_pos_of_mem ha
    simp only [List.length_cons]
    omega

theorem pigeonhole {α : Type} [DecidableEq α] : ∀ (l₁ l₂ : List α), l₁.Nodup → l₁ ⊆ l₂ → l₂.length ≤ l₁.length → l₂ ⊆ l₁
  | [], l₂, _, _, hl => by
    have : l₂ = [] := List.eq_nil_of_length_eq_zero (Nat.le_zero.1 hl)
    subst this; exact fun _ h => h
  | a :: l₁, l₂, hn, hs, hl => by
    have ha : a ∈ l₂ := hs (List.mem_cons_self ..)
    have hn' := List.nodup_cons.1 hn
    have hsub : l₁ ⊆ l₂.erase a := by
      intro x hx
      have hxa : x ≠ a := fun h => hn'.1 (h ▸ hx)
      exact (List.mem_erase_of_ne hxa).2 (hs (List.mem_cons_of_mem _ hx))
    have hlen := List.length_erase_of_mem ha
    have hpos : 0 < l₂.length := List.length_pos_of_mem ha
    have ih := pigeonhole l₁ (l₂.erase a) hn'.2 hsub (by simp only [List.length_cons] at hl; omega)
    intro x hx
    by_cases hxa : x = a
    · subst hxa; exact List.mem_cons_self ..
    · exact List.mem_cons_of_mem _ (ih ((List.mem_erase_of_ne hxa).2 hx))



theorem lookup_nil (k : String) : lookup [] k = none := rfl

theorem lookup_cons (k' : String) (v : J) (r : List (String × J)) (k : String) :
    lookup ((k', v) :: r) k = if k' = k then some v else lookup r k := by
  unfold lookup
  by_cases h : k' = k
  · simp [List.find?_cons, h]
  · have : (k' == k) = false := by simpa using h
    simp [List.find?_cons, this, h]

theorem lookup_mem : ∀ (kvs : List (String × J)) (k : String) (v : J), lookup kvs k = some v → (k, v) ∈ kvs
  | [], k, v, h => by simp [lookup_nil] at h
  | (k', v') :: r, k, v, h => by
    rw [lookup_cons] at h
    by_cases hk : k' = k
    · rw [if_pos hk] at h; cases h; subst hk; exact List.mem_cons_self ..
    · rw [if_neg hk] at h; exact List.mem_cons_of_mem _ (lookup_mem r k v h)

theorem lookup_of_mem_nodup : ∀ (kvs : List (String × J)) (k : String) (v : J), (kvs.map (·.1)).Nodup → (k, v) ∈ kvs → lookup kvs k = some v
  | [], _, _, _, h => by cases h
  | (k', v') :: r, k, v, hn, h => by
    rw [lookup_cons]
    simp only [List.map_cons, List.nodup_cons] at hn
    rcases List.mem_cons.1 h with heq | hmem
    · cases heq; simp
    · have hne : k' ≠ k := by
        intro he; subst he
        exact hn.1 (List.mem_map.2 ⟨(k', v), hmem, rfl⟩)
      rw [if_neg hne]
      exact lookup_of_mem_nodup r k v hn.2 hmem

theorem mapM_same {α β : Type} (f g : α → Option β) : ∀ (l : List α) (r : List β), l.mapM f = some r → l.mapM g = some r →
    ∀ x ∈ l, ∃ y, f x = some y ∧ g x = some y
  | [], _, _, _, x, hx => by cases hx
  | a :: l, r, hf, hg, x, hx => by
    simp only [List.mapM_cons] at hf hg
    cases hfa : f a with
    | none => simp [hfa] at hf
    | some fa =>
      cases hga : g a with
      | none => simp [hga] at hg
      | some ga =>
        cases hfl : l.mapM f with
        | none => simp [hfa, hfl] at hf
        | some fl =>
          cases hgl : l.mapM g with
          | none => simp [hga, hgl] at hg
          | some gl =>
            simp [hfa, hfl] at hf
            simp [hga, hgl] at hg
            subst hf
            simp only [List.cons.injEq] at hg
            rcases List.mem_cons.1 hx with rfl | hm
            · exact ⟨fa, hfa, by rw [hga, hg.1]⟩
            · exact mapM_same f g l fl hfl (by rw [hgl, hg.2]) x hm

theorem sameList_of_mapM (f g : J → Option Enc) : ∀ (xs ys : List J) (r : List Enc), xs.mapM f = some r → ys.mapM g = some r →
    (∀ x ∈ xs, ∀ y ∈ ys, ∀ e, f x = some e → g y = some e → Same x y) → SameList xs ys
  | [], [], _, _, _, _ => by simp [SameList]
  | [], b :: ys, r, hf, hg, _ => by
    simp only [List.mapM_nil] at hf
    simp only [List.mapM_cons] at hg
    cases hgb : g b with
    | none => simp [hgb] at hg
    | some gb =>
      cases hgl : ys.mapM g with
      | none => simp [hgb, hgl] at hg
      | some gl => simp [hgb, hgl] at hg; cases hf; cases hg
  | a :: xs, [], r, hf, hg, _ => by
    simp only [List.mapM_nil] at hg
    simp only [List.mapM_cons] at hf
    cases hfa : f a with
    | none => simp [hfa] at hf
    | some fa =>
      cases hfl : xs.mapM f with
      | none => simp [hfa, hfl] at hf
      | some fl => simp [hfa, hfl] at hf; cases hg; cases hf
  | a :: xs, b :: ys, r, hf, hg, H => by
    simp only [List.mapM_cons] at hf hg
    cases hfa : f a with
    | none => simp [hfa] at hf
    | some fa =>
      cases hgb : g b with
      | none => simp [hgb] at hg
      | some gb =>
        cases hfl : xs.mapM f with
        | none => simp [hfa, hfl] at hf
        | some fl =>
          cases hgl : ys.mapM g with
          | none => simp [hgb, hgl] at hg
          | some gl =>
            simp [hfa, hfl] at hf
            simp [hgb, hgl] at hg
            subst hf
            simp only [List.cons.injEq] at hg
            simp only [SameList]
            refine ⟨H a (List.mem_cons_self ..) b (List.mem_cons_self ..) fa hfa (by rw [hgb, hg.1]), ?_⟩
            exact sameList_of_mapM f g xs ys fl hfl (by rw [hgl, hg.2])
              (fun x hx y hy e h1 h2 => H x (List.mem_cons_of_mem _ hx) y (List.mem_cons_of_mem _ hy) e h1 h2)


/-! ## shapes of the encoders -/


theorem encodeStruct_is_struct (f : Nat) (t : Types) (p : String) (d : List (String × J)) (e : Enc)
    (h : encodeStruct f t p d = some e) : ∃ n ms ts fs, e = .struct n ms ts fs := by
  cases f with
  | zero => simp [encodeStruct] at h
  | succ f =>
    simp only [encodeStruct] at h
    split at h
    · split at h
      · cases h
      · simp only [Option.some.injEq] at h; exact ⟨_, _, _, _, h.symm⟩
    · split at h
      · cases h
      · simp only [Option.map_eq_some_iff] at h
        obtain ⟨fs, _, he⟩ := h
        exact ⟨_, _, _, _, he.symm⟩

theorem encodePrim_shape (ty : String) (v : J) (e : Enc) (h : encodePrim ty v = some e) :
    ((∃ n, e = .word n) ∨ (∃ s, e = .str s)) ∧ ((∃ b, v = .bool b) ∨ (∃ n, v = .num n) ∨ (∃ s, v = .str s)) := by
  unfold encodePrim at h
  by_cases h1 : ty = "bool"
  · rw [if_pos h1] at h
    cases v <;> simp at h
    exact ⟨Or.inl ⟨_, h.symm⟩, Or.inl ⟨_, rfl⟩⟩
  rw [if_neg h1] at h
  by_cases h2 : ty = "string"
  · rw [if_pos h2] at h
    cases v <;> simp at h
    exact ⟨Or.inr ⟨_, h.symm⟩, Or.inr (Or.inr ⟨_, rfl⟩)⟩
  rw [if_neg h2] at h
  by_cases h3 : ty = "int64"
  · rw [if_pos h3] at h
    cases hp : parseInt64 v with
    | none => simp [hp] at h
    | some n =>
      simp [hp] at h
      refine ⟨Or.inl ⟨_, h.symm⟩, ?_⟩
      unfold parseInt64 at hp
      cases v <;> simp at hp
      · exact Or.inr (Or.inl ⟨_, rfl⟩)
      · exact Or.inr (Or.inr ⟨_, rfl⟩)
  rw [if_neg h3] at h
  by_cases h4 : ty = "uint256"
  · rw [if_pos h4] at h
    cases v <;> simp at h
    exact ⟨Or.inl ⟨_, h.2.symm⟩, Or.inr (Or.inl ⟨_, rfl⟩)⟩
  rw [if_neg h4] at h
  cases h

theorem same_refl_prim (v : J) (h : (∃ b, v = .bool b) ∨ (∃ n, v = .num n) ∨ (∃ s, v = .str s)) : Same v v := by
  rcases h with ⟨b, rfl⟩ | ⟨n, rfl⟩ | ⟨s, rfl⟩ <;> simp [Same]

theorem canonFields_mem : ∀ (kvs : List (String × J)) (k : String) (v : J), CanonFields kvs → (k, v) ∈ kvs → Canon v
  | [], _, _, _, h => by cases h
  | (k', v') :: r, k, v, hc, h => by
    simp only [CanonFields] at hc
    rcases List.mem_cons.1 h with heq | hm
    · cases heq; exact hc.1
    · exact canonFields_mem r k v hc.2 hm

theorem canonList_mem : ∀ (xs : List J) (x : J), CanonList xs → x ∈ xs → Canon x
  | [], _, _, h => by cases h
  | y :: ys, x, hc, h => by
    simp only [CanonList] at hc
    rcases List.mem_cons.1 h with rfl | hm
    · exact hc.1
    · exact canonList_mem ys x hc.2 hm

theorem sameFields_of_forall : ∀ (a b : List (String × J)), (∀ kv ∈ a, ∃ y, lookup b kv.1 = some y ∧ Same kv.2 y) → SameFields a b
  | [], _, _ => by simp [SameFields]
  | (k, v) :: r, b, h => by
    simp only [SameFields]
    exact ⟨h (k, v) (List.mem_cons_self ..), sameFields_of_forall r b (fun kv hkv => h kv (List.mem_cons_of_mem _ hkv))⟩


/-! ## items, members -/


/-- what the induction hypothesis provides for the nested-struct encoder of each side -/
structure RecInj (r1 r2 : String → List (String × J) → Option Enc) (w1 w2 : String → List (String × J) → Bool) : Prop where
  inj : ∀ p1 p2 d1 d2 e, r1 p1 d1 = some e → r2 p2 d2 = some e → Canon (.obj d1) → Canon (.obj d2) →
    w1 p1 d1 = true → w2 p2 d2 = true → Same (.obj d1) (.obj d2)
  s1 : ∀ p d e, r1 p d = some e → ∃ n ms ts fs, e = .struct n ms ts fs
  s2 : ∀ p d e, r2 p d = some e → ∃ n ms ts fs, e = .struct n ms ts fs

theorem kind_int64_num (v : J) (e : Enc) (hk : kindOK "int64" v = true) (he : encodePrim "int64" v = some e) : ∃ n, v = .num n := by
  cases v with
  | num n => exact ⟨n, rfl⟩
  | float => simp [encodePrim, parseInt64] at he
  | null => simp [kindOK] at hk
  | bool b => simp [kindOK] at hk
  | str s => simp [kindOK] at hk
  | arr xs => simp [kindOK] at hk
  | obj kvs => simp [kindOK] at hk

theorem item_inj {r1 r2 w1 w2} (hrec : RecInj r1 r2 w1 w2) (t1 t2 : Types) (pt : String) (x y : J) (e : Enc)
    (h1 : encodeItem r1 t1 pt x = some e) (h2 : encodeItem r2 t2 pt y = some e)
    (c1 : Canon x) (c2 : Canon y) (ty1 : itemTyped w1 t1 pt x = true) (ty2 : itemTyped w2 t2 pt y = true) : Same x y := by
  unfold encodeItem at h1 h2
  unfold itemTyped at ty1 ty2
  by_cases a1 : t1.has pt = true <;> by_cases a2 : t2.has pt = true
  · rw [if_pos a1] at h1 ty1; rw [if_pos a2] at h2 ty2
    cases x <;> simp at h1
    cases y <;> simp at h2
    exact hrec.inj _ _ _ _ _ h1 h2 c1 c2 (by simpa using ty1) (by simpa using ty2)
  · rw [if_pos a1] at h1; rw [if_neg a2] at h2
    cases x <;> simp at h1
    obtain ⟨n, ms, ts, fs, hs⟩ := hrec.s1 _ _ _ h1
    rcases (encodePrim_shape _ _ _ h2).1 with ⟨k, hk⟩ | ⟨k, hk⟩ <;> (rw [hs] at hk; cases hk)
  · rw [if_neg a1] at h1; rw [if_pos a2] at h2
    cases y <;> simp at h2
    obtain ⟨n, ms, ts, fs, hs⟩ := hrec.s2 _ _ _ h2
    rcases (encodePrim_shape _ _ _ h1).1 with ⟨k, hk⟩ | ⟨k, hk⟩ <;> (rw [hs] at hk; cases hk)
  · rw [if_neg a1] at h1 ty1; rw [if_neg a2] at h2 ty2
    have hxy : x = y := by
      apply C19_prim_injective pt x y e _ h1 h2
      intro hpt; subst hpt
      exact ⟨kind_int64_num x e ty1 h1, kind_int64_num y e ty2 h2⟩
    subst hxy
    exact same_refl_prim x (encodePrim_shape _ _ _ h1).2



theorem encodeField_nonarray (r : String → List (String × J) → Option Enc) (t : Types) (d : List (String × J)) (n ty : String)
    (h : ty.endsWith "[]" = false) : encodeField r t d n ty = (lookup d n).bind (encodeItem r t ty) := by
  unfold encodeField encodeItem
  rw [if_neg (by simp [h])]
  cases hl : lookup d n with
  | none => by_cases ht : t.has ty = true <;> simp [ht]
  | some v =>
    by_cases ht : t.has ty = true
    · simp only [ht, if_true, Option.bind_some]
      cases v <;> rfl
    · simp only [ht, Option.bind_some]; rfl

theorem fieldTyped_nonarray (w : String → List (String × J) → Bool) (t : Types) (d : List (String × J)) (n ty : String) (v : J)
    (h : ty.endsWith "[]" = false) (hl : lookup d n = some v) : fieldTyped w t d n ty = itemTyped w t ty v := by
  unfold fieldTyped itemTyped
  simp only [hl, h, Bool.false_eq_true, if_false]

theorem field_inj {r1 r2 w1 w2} (hrec : RecInj r1 r2 w1 w2) (t1 t2 : Types) (d1 d2 : List (String × J)) (n ty : String) (e : Enc)
    (h1 : encodeField r1 t1 d1 n ty = some e) (h2 : encodeField r2 t2 d2 n ty = some e)
    (c1 : CanonFields d1) (c2 : CanonFields d2)
    (ty1 : fieldTyped w1 t1 d1 n ty = true) (ty2 : fieldTyped w2 t2 d2 n ty = true) :
    ∃ x y, lookup d1 n = some x ∧ lookup d2 n = some y ∧ Same x y := by
  cases harr : ty.endsWith "[]" with
  | false =>
    rw [encodeField_nonarray _ _ _ _ _ harr] at h1 h2
    cases l1 : lookup d1 n with
    | none => simp [l1] at h1
    | some x =>
      cases l2 : lookup d2 n with
      | none => simp [l2] at h2
      | some y =>
        simp only [l1, Option.bind_some] at h1
        simp only [l2, Option.bind_some] at h2
        rw [fieldTyped_nonarray _ _ _ _ _ _ harr l1] at ty1
        rw [fieldTyped_nonarray _ _ _ _ _ _ harr l2] at ty2
        exact ⟨x, y, rfl, rfl, item_inj hrec t1 t2 ty x y e h1 h2
          (canonFields_mem _ _ _ c1 (lookup_mem _ _ _ l1)) (canonFields_mem _ _ _ c2 (lookup_mem _ _ _ l2)) ty1 ty2⟩
  | true =>
    unfold encodeField at h1 h2
    rw [if_pos harr] at h1 h2
    cases l1 : lookup d1 n with
    | none => simp [l1] at h1
    | some x =>
      cases l2 : lookup d2 n with
      | none => simp [l2] at h2
      | some y =>
        cases x <;> simp [l1] at h1
        cases y <;> simp [l2] at h2
        rename_i xs ys
        obtain ⟨a1, hm1, he1⟩ := h1
        obtain ⟨a2, hm2, he2⟩ := h2
        have ha : a1 = a2 := by rw [← he2] at he1; simpa using he1
        subst ha
        have cx : CanonList xs := by
          have := canonFields_mem _ _ _ c1 (lookup_mem _ _ _ l1); simpa [Canon] using this
        have cy : CanonList ys := by
          have := canonFields_mem _ _ _ c2 (lookup_mem _ _ _ l2); simpa [Canon] using this
        have tx : ∀ x ∈ xs, itemTyped w1 t1 (elemType ty) x = true := by
          unfold fieldTyped at ty1
          simp only [l1, harr, if_true] at ty1
          exact List.all_eq_true.1 ty1
        have tyy : ∀ y ∈ ys, itemTyped w2 t2 (elemType ty) y = true := by
          unfold fieldTyped at ty2
          simp only [l2, harr, if_true] at ty2
          exact List.all_eq_true.1 ty2
        refine ⟨.arr xs, .arr ys, rfl, rfl, ?_⟩
        simp only [Same]
        exact sameList_of_mapM _ _ xs ys a1 hm1 hm2 (fun x hx y hy e' h1' h2' =>
          item_inj hrec t1 t2 (elemType ty) x y e' h1' h2' (canonList_mem _ _ cx hx) (canonList_mem _ _ cy hy) (tx x hx) (tyy y hy))


/-! ## structs -/

theorem members_inj {r1 r2 w1 w2} (hrec : RecInj r1 r2 w1 w2) (t1 t2 : Types) (d1 d2 : List (String × J)) (ms : Members) (fs : List Enc)
    (hm1 : ms.mapM (fun m => encodeField r1 t1 d1 m.1 m.2) = some fs) (hm2 : ms.mapM (fun m => encodeField r2 t2 d2 m.1 m.2) = some fs)
    (hl1 : ¬ ms.length < d1.length) (hl2 : ¬ ms.length < d2.length) (hn : (ms.map (·.1)).Nodup)
    (c1 : Canon (.obj d1)) (c2 : Canon (.obj d2))
    (ty1 : ms.all (fun m => fieldTyped w1 t1 d1 m.1 m.2) = true) (ty2 : ms.all (fun m => fieldTyped w2 t2 d2 m.1 m.2) = true) :
    Same (.obj d1) (.obj d2) := by
  simp only [Canon] at c1 c2
  have per := mapM_same _ _ ms fs hm1 hm2
  have facts : ∀ m ∈ ms, ∃ x y, lookup d1 m.1 = some x ∧ lookup d2 m.1 = some y ∧ Same x y := by
    intro m hm
    obtain ⟨e, h1, h2⟩ := per m hm
    exact field_inj hrec t1 t2 d1 d2 m.1 m.2 e h1 h2 c1.2 c2.2 (List.all_eq_true.1 ty1 m hm) (List.all_eq_true.1 ty2 m hm)
  have sub1 : ms.map (·.1) ⊆ d1.map (·.1) := by
    intro n hnm
    obtain ⟨m, hm, rfl⟩ := List.mem_map.1 hnm
    obtain ⟨x, _, l1, _, _⟩ := facts m hm
    exact List.mem_map.2 ⟨(m.1, x), lookup_mem _ _ _ l1, rfl⟩
  have sub2 : ms.map (·.1) ⊆ d2.map (·.1) := by
    intro n hnm
    obtain ⟨m, hm, rfl⟩ := List.mem_map.1 hnm
    obtain ⟨_, y, _, l2, _⟩ := facts m hm
    exact List.mem_map.2 ⟨(m.1, y), lookup_mem _ _ _ l2, rfl⟩
  have len1 := nodup_subset_length _ _ hn sub1
  have len2 := nodup_subset_length _ _ hn sub2
  simp only [List.length_map] at len1 len2
  have back1 : d1.map (·.1) ⊆ ms.map (·.1) := pigeonhole _ _ hn sub1 (by simp only [List.length_map]; omega)
  simp only [Same]
  refine ⟨by omega, sameFields_of_forall d1 d2 ?_⟩
  intro kv hkv
  have hk : kv.1 ∈ ms.map (·.1) := back1 (List.mem_map.2 ⟨kv, hkv, rfl⟩)
  obtain ⟨m, hm, hmk⟩ := List.mem_map.1 hk
  obtain ⟨x, y, l1, l2, hs⟩ := facts m hm
  have hself : lookup d1 kv.1 = some kv.2 := lookup_of_mem_nodup d1 kv.1 kv.2 c1.1 hkv
  rw [hmk] at l1 l2
  rw [hself] at l1
  cases l1
  exact ⟨y, l2, hs⟩

/-- **C19 (the EIP-712 rendering is injective).**  Two message objects with the same struct encoding — under
whatever type maps, for an ideal hash — are the same JSON value (objects as maps), provided each is canonical,
each type map lists every member once and each document is well typed by its own schema. -/
theorem C19_rendering_injective : ∀ (f1 f2 : Nat) (t1 t2 : Types) (p1 p2 : String) (d1 d2 : List (String × J)) (e : Enc),
    MembersNodup t1 → MembersNodup t2 →
    encodeStruct f1 t1 p1 d1 = some e → encodeStruct f2 t2 p2 d2 = some e →
    Canon (.obj d1) → Canon (.obj d2) → wellTyped f1 t1 p1 d1 = true → wellTyped f2 t2 p2 d2 = true →
    Same (.obj d1) (.obj d2) := by
  intro f1
  induction f1 with
  | zero => intro f2 t1 t2 p1 p2 d1 d2 e _ _ h1; simp [encodeStruct] at h1
  | succ f1 ih =>
    intro f2 t1 t2 p1 p2 d1 d2 e n1 n2 h1 h2 c1 c2 w1 w2
    cases f2 with
    | zero => simp [encodeStruct] at h2
    | succ f2 =>
      have hrec : RecInj (encodeStruct f1 t1) (encodeStruct f2 t2) (wellTyped f1 t1) (wellTyped f2 t2) :=
        { inj := fun q1 q2 a1 a2 e' g1 g2 k1 k2 v1 v2 => ih f2 t1 t2 q1 q2 a1 a2 e' n1 n2 g1 g2 k1 k2 v1 v2
          s1 := fun q a e' g => encodeStruct_is_struct f1 t1 q a e' g
          s2 := fun q a e' g => encodeStruct_is_struct f2 t2 q a e' g }
      simp only [encodeStruct] at h1 h2
      simp only [wellTyped] at w1 w2
      cases g1 : t1.get p1 with
      | none =>
        simp only [g1] at h1
        split at h1
        · cases h1
        · rename_i hd1
          simp only [Option.some.injEq] at h1
          have e1 : d1 = [] := List.eq_nil_of_length_eq_zero (by omega)
          cases g2 : t2.get p2 with
          | none =>
            simp only [g2] at h2
            split at h2
            · cases h2
            · rename_i hd2
              have e2 : d2 = [] := List.eq_nil_of_length_eq_zero (by omega)
              subst e1 e2; simp [Same, SameFields]
          | some ms2 =>
            simp only [g2] at h2
            split at h2
            · cases h2
            · rename_i hl2
              simp only [Option.map_eq_some_iff] at h2
              obtain ⟨fs, _, he⟩ := h2
              rw [← h1] at he
              simp only [Enc.struct.injEq] at he
              have : ms2 = [] := he.2.1
              subst this
              have e2 : d2 = [] := List.eq_nil_of_length_eq_zero (by simp only [List.length_nil, Nat.not_lt, Nat.le_zero_eq] at hl2; exact hl2)
              subst e1 e2; simp [Same, SameFields]
      | some ms1 =>
        simp only [g1] at h1 w1
        split at h1
        · cases h1
        · rename_i hl1
          simp only [Option.map_eq_some_iff] at h1
          obtain ⟨fs1, hm1, he1⟩ := h1
          cases g2 : t2.get p2 with
          | none =>
            simp only [g2] at h2
            split at h2
            · cases h2
            · rename_i hd2
              simp only [Option.some.injEq] at h2
              rw [← he1] at h2
              simp only [Enc.struct.injEq] at h2
              have : ms1 = [] := h2.2.1.symm
              subst this
              have e1 : d1 = [] := List.eq_nil_of_length_eq_zero (by simp only [List.length_nil, Nat.not_lt, Nat.le_zero_eq] at hl1; exact hl1)
              have e2 : d2 = [] := List.eq_nil_of_length_eq_zero (by omega)
              subst e1 e2; simp [Same, SameFields]
          | some ms2 =>
            simp only [g2] at h2 w2
            split at h2
            · cases h2
            · rename_i hl2
              simp only [Option.map_eq_some_iff] at h2
              obtain ⟨fs2, hm2, he2⟩ := h2
              rw [← he1] at he2
              simp only [Enc.struct.injEq] at he2
              obtain ⟨_, hms, _, hfs⟩ := he2
              subst hms hfs
              exact members_inj hrec t1 t2 d1 d2 ms2 fs2 hm1 hm2 hl1 hl2 (n2 _ _ g2) c1 c2 w1 w2

end Evermint.Eip712

namespace Evermint.Eip712

/-! ## the hypotheses as executable checks (evaluated by the driver on every document of E-crypto) -/

mutual
  def canonB : J → Bool
    | .arr xs => canonListB xs
    | .obj kvs => decide ((kvs.map (·.1)).Nodup) && canonFieldsB kvs
    | _ => true
  def canonListB : List J → Bool
    | [] => true
    | x :: xs => canonB x && canonListB xs
  def canonFieldsB : List (String × J) → Bool
    | [] => true
    | (_, v) :: r => canonB v && canonFieldsB r
end

mutual
  theorem canonB_sound : ∀ (j : J), canonB j = true → Canon j
    | .null, _ => by simp [Canon]
    | .bool _, _ => by simp [Canon]
    | .num _, _ => by simp [Canon]
    | .float, _ => by simp [Canon]
    | .str _, _ => by simp [Canon]
    | .arr xs, h => by
      simp only [canonB] at h
      simp only [Canon]
      exact canonListB_sound xs h
    | .obj kvs, h => by
      simp only [canonB, Bool.and_eq_true, decide_eq_true_eq] at h
      simp only [Canon]
      exact ⟨h.1, canonFieldsB_sound kvs h.2⟩
  theorem canonListB_sound : ∀ (xs : List J), canonListB xs = true → CanonList xs
    | [], _ => by simp [CanonList]
    | x :: xs, h => by
      simp only [canonListB, Bool.and_eq_true] at h
      simp only [CanonList]
      exact ⟨canonB_sound x h.1, canonListB_sound xs h.2⟩
  theorem canonFieldsB_sound : ∀ (kvs : List (String × J)), canonFieldsB kvs = true → CanonFields kvs
    | [], _ => by simp [CanonFields]
    | (k, v) :: r, h => by
      simp only [canonFieldsB, Bool.and_eq_true] at h
      simp only [CanonFields]
      exact ⟨canonB_sound v h.1, canonFieldsB_sound r h.2⟩
end

def membersNodupB (t : Types) : Bool := t.all (fun e => decide ((e.2.map (·.1)).Nodup))

theorem membersNodupB_sound (t : Types) (h : membersNodupB t = true) : MembersNodup t := by
  intro n ms hg
  unfold Types.get at hg
  cases hf : t.find? (·.1 == n) with
  | none => simp [hf] at hg
  | some e =>
    simp only [hf, Option.map_some, Option.some.injEq] at hg
    have hmem : e ∈ t := List.mem_of_find?_eq_some hf
    have := List.all_eq_true.1 h e hmem
    subst hg
    simpa using this

def domainObj (chainId : Nat) : List (String × J) :=
  [("name", .str "Cosmos Web3"), ("version", .str "1.0.0"), ("chainId", .num chainId), ("verifyingContract", .str "cosmos"), ("salt", .str "0")]

theorem sameFields_lookup : ∀ (a b : List (String × J)), SameFields a b → ∀ k v, (k, v) ∈ a → ∃ y, lookup b k = some y ∧ Same v y
  | [], _, _, _, _, h => by cases h
  | (k', v') :: r, b, hs, k, v, h => by
    simp only [SameFields] at hs
    rcases List.mem_cons.1 h with heq | hm
    · cases heq; exact hs.1
    · exact sameFields_lookup r b hs.2 k v hm

theorem domainObj_canon (c : Nat) : Canon (.obj (domainObj c)) := by
  simp only [Canon, domainObj, CanonFields, List.map_cons, List.map_nil, and_true]
  decide

/-- everything `C19_typed_injective` asks of one document, computed -/
def docOK (chainId : Nat) (doc : J) : Bool :=
  match wrap doc with
  | none => false
  | some td =>
    membersNodupB td.types && canonB (.obj td.message) && wellTyped (jdepth doc + 2) td.types "Tx" td.message &&
    wellTyped 2 td.types "EIP712Domain" (domainObj chainId)

/-- **C19 (one signature, one transaction).**  If the EIP-712 renderings of two sign documents coincide — domain
separator and message hash, for an ideal hash — then the chain ids are equal and the two (flattened) documents
are the same JSON value: same account number, sequence, fee, gas, memo and every field of every message. -/
theorem C19_typed_injective (c1 c2 : Nat) (doc1 doc2 : J) (td1 td2 : Typed) (d m : Enc)
    (hw1 : wrap doc1 = some td1) (hw2 : wrap doc2 = some td2)
    (h1 : typedEnc c1 doc1 = some (d, m)) (h2 : typedEnc c2 doc2 = some (d, m))
    (ok1 : docOK c1 doc1 = true) (ok2 : docOK c2 doc2 = true) :
    c1 = c2 ∧ Same (.obj td1.message) (.obj td2.message) := by
  simp only [docOK, hw1, hw2, Bool.and_eq_true] at ok1 ok2
  obtain ⟨⟨⟨n1, k1⟩, w1⟩, wd1⟩ := ok1
  obtain ⟨⟨⟨n2, k2⟩, w2⟩, wd2⟩ := ok2
  have N1 := membersNodupB_sound _ n1
  have N2 := membersNodupB_sound _ n2
  simp only [typedEnc, hw1, hw2] at h1 h2
  split at h1
  · cases h1
  split at h1
  · cases h1
  split at h2
  · cases h2
  split at h2
  · cases h2
  cases hd1 : domainEnc td1.types c1 with
  | none => simp [hd1] at h1
  | some dd1 =>
    cases hm1 : encodeStruct (jdepth doc1 + 2) td1.types "Tx" td1.message with
    | none => simp [hd1, hm1] at h1
    | some mm1 =>
      cases hd2 : domainEnc td2.types c2 with
      | none => simp [hd2] at h2
      | some dd2 =>
        cases hm2 : encodeStruct (jdepth doc2 + 2) td2.types "Tx" td2.message with
        | none => simp [hd2, hm2] at h2
        | some mm2 =>
          simp only [hd1, hm1, Option.some.injEq, Prod.mk.injEq] at h1
          simp only [hd2, hm2, Option.some.injEq, Prod.mk.injEq] at h2
          obtain ⟨rfl, rfl⟩ := h1
          obtain ⟨rfl, rfl⟩ := h2
          refine ⟨?_, C19_rendering_injective _ _ _ _ _ _ _ _ _ N1 N2 hm1 hm2 (canonB_sound _ k1) (canonB_sound _ k2) w1 w2⟩
          have hdom := C19_rendering_injective 2 2 td1.types td2.types "EIP712Domain" "EIP712Domain" (domainObj c1) (domainObj c2) _ N1 N2 hd1 hd2
            (domainObj_canon c1) (domainObj_canon c2) wd1 wd2
          simp only [Same] at hdom
          obtain ⟨y, hy, hs⟩ := sameFields_lookup _ _ hdom.2 "chainId" (.num c1) (by simp [domainObj])
          have hl : lookup (domainObj c2) "chainId" = some (.num c2) := by
            simp [domainObj, lookup_cons]
          rw [hl] at hy
          cases hy
          simp only [Same] at hs
          exact Int.ofNat.inj hs

end Evermint.Eip712

namespace Evermint.Eip712

/-! non-vacuity: a document of two messages meets every hypothesis and renders -/
def sampleDoc : J := .obj [
  ("account_number", .str "7"), ("chain_id", .str "evermint_9000-1"),
  ("fee", .obj [("amount", .arr [.obj [("amount", .str "100"), ("denom", .str "aevm")]]), ("gas", .str "21000")]),
  ("memo", .str ""),
  ("msgs", .arr [
    .obj [("type", .str "cosmos-sdk/MsgSend"), ("value", .obj [("amount", .arr [.obj [("amount", .str "5"), ("denom", .str "aevm")]]), ("from_address", .str "a"), ("to_address", .str "b")])],
    .obj [("type", .str "cosmos-sdk/MsgVote"), ("value", .obj [("option", .num 1), ("proposal_id", .str "3"), ("voter", .str "a")])]]),
  ("sequence", .str "4")]

example : docOK 9000 sampleDoc = true := by decide +kernel
example : (typedEnc 9000 sampleDoc).isSome = true := by decide +kernel

end Evermint.Eip712
