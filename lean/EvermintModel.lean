import EvermintModel.Model.FeeMarket
import EvermintModel.Properties.C09
