/-! Line-protocol plumbing shared by all engines (core only). -/
namespace Driver

def splitWs (s : String) : List String :=
  (s.splitOn " ").filter (· ≠ "")

def parseInt? (s : String) : Option Int := s.toInt?
def parseNat? (s : String) : Option Nat := s.toNat?

partial def loop {σ : Type} (h : IO.FS.Stream) (out : IO.FS.Stream) (step : σ → List String → σ × String) (s : σ) : IO Unit := do
  let line ← h.getLine
  if line.isEmpty then
    out.flush
    return ()
  let toks := splitWs (line.trimRight)
  match toks with
  | [] => loop h out step s
  | _ =>
    let (s', o) := step s toks
    out.putStrLn o
    loop h out step s'

end Driver
