import EvermintModel.Model.FeeMarket
import Driver.Common
namespace Driver.FeeMarket
open Evermint.FeeMarket

def showRes : Res → String
  | .ok v => s!"ok {v}"
  | .panicDivZero => "panic divzero"
  | .panicOverflow => "panic overflow"

/-- `calc <b> <maxGas|nil> <consumed> <minRaw>` -/
def step (_ : Unit) (toks : List String) : Unit × String :=
  match toks with
  | ["calc", b, mg, cons, mn] =>
    match b.toNat?, (if mg = "nil" then some none else mg.toInt?.map some), cons.toNat?, mn.toNat? with
    | some b, some mg, some cons, some mn => ((), showRes (calcBaseFee londonConsts b mg cons mn))
    | _, _, _, _ => ((), "bad-op")
  | _ => ((), "bad-op")

end Driver.FeeMarket
