import EvermintModel.Model.StateDB
import Driver.Common
namespace Driver.StateDB
open Evermint Evermint.CDbG

structure St where
  w : World                 -- world being set up by `w.*` lines
  s : Option SState := none
  nAddrs : Nat := 0
  dead : Bool := false      -- after a panic the case is over until the next `w.meta`

def emptyWorld : World :=
  { acc := FMap.empty none, bal := FMap.empty 0, supply := FMap.empty 0, codeHash := FMap.empty 0,
    storage := FMap.empty none, allow := FMap.empty 0, nextAcc := 0, events := 0, now := 0, evmMod := 0, blocked := [] }

def joinWith (sep : String) (xs : List String) : String := sep.intercalate xs

def idsStr (xs : List Nat) : String := joinWith "," (xs.map toString)

def nAddrsConst : Nat := 14
def nKeys : Nat := 4

def dump (st : SState) : String := Id.run do
  let db := st.db
  let w := db.cur
  let j := db.j
  let mut out := s!"R={j.refund} L={joinWith "," (j.logs.map (fun p => s!"{p.1}:{p.2}"))}"
  out := out ++ s!" T={idsStr j.touched} SD={idsStr j.selfDestr} AA={idsStr j.alAddrs} AS={idsStr j.alSlots}"
  let mut ts : List String := []
  for a in List.range nAddrsConst do
    for k in List.range nKeys do
      let v := j.transient.get (pair a k)
      if v != 0 then ts := ts ++ [s!"{pair a k}:{v}"]
  out := out ++ s!" TS={joinWith "," ts} SN={db.below.length + 1} NA={w.nextAcc}"
  for a in List.range nAddrsConst do
    let acc := w.acc.get a
    let num := match acc with | some ac => toString ac.num | none => "-"
    let kind := match acc with
      | some { kind := .base, .. } => "b" | some { kind := .module, .. } => "m"
      | some { kind := .vesting _ _, .. } => "v" | none => "-"
    let nonce := match acc with | some ac => ac.seq | none => 0
    let ch := getCodeHashClass w a
    let cs := match w.codeHash.get a with | 0 => 0 | 1 => 2 | _ => 3
    let b2n := fun (b : Bool) => if b then 1 else 0
    out := out ++ s!" |a{a} x={b2n (exist db a)} e={b2n (w.isEmpty a)} b={w.balOf a 0},{w.balOf a 1} n={nonce} ch={ch} cs={cs} sd={b2n (j.selfDestr.contains a)} num={num} kind={kind} st="
    out := out ++ joinWith "," ((List.range nKeys).map (fun k => toString (getState w a k)))
    out := out ++ " cst=" ++ joinWith "," ((List.range nKeys).map (fun k => toString (getCommittedState db a k)))
    out := out ++ s!" al={b2n (j.alAddrs.contains a)}"
  out := out ++ s!" |sup={w.supply.get 0},{w.supply.get 1} |allow="
  let mut al : List String := []
  for a in List.range nAddrsConst do
    for b in List.range nAddrsConst do
      let n := w.allow.get (pair a b)
      if n != 0 then al := al ++ [s!"{a}:{b}:{n}"]
  out := out ++ joinWith "," al
  return out

def parseOp (toks : List String) : Option SOp :=
  let n := fun (s : String) => s.toNat?
  match toks with
  | ["createAccount", a] => (n a).map .createAccount
  | ["addBalance", a, x] => do pure (.addBalance (← n a) (← n x))
  | ["subBalance", a, x] => do pure (.subBalance (← n a) (← n x))
  | ["setNonce", a, x] => do pure (.setNonce (← n a) (← n x))
  | ["setCode", a, c] => do pure (.setCode (← n a) (← n c))
  | ["setState", a, k, v] => do pure (.setState (← n a) (← n k) (← n v))
  | ["suicide", a] => (n a).map .suicide
  | ["selfdestruct6780", a] => (n a).map .selfdestruct6780
  | ["addRefund", x] => (n x).map .addRefund
  | ["subRefund", x] => (n x).map .subRefund
  | ["addAddr", a] => (n a).map .addAddr
  | ["addSlot", a, k] => do pure (.addSlot (← n a) (← n k))
  | ["setTransient", a, k, v] => do pure (.setTransient (← n a) (← n k) (← n v))
  | ["addLog", a, t] => do pure (.addLog (← n a) (← n t))
  | ["pcSend", a, b, d, x] => do pure (.pcSend (← n a) (← n b) (← n d) (← n x))
  | ["pcAllow", a, b, x] => do pure (.pcAllow (← n a) (← n b) (← n x))
  | ["snapshot"] => some .snapshot
  | ["revert", id] => id.toInt?.map .revert
  | ["commit", d] => (n d).map (fun x => .commit (x != 0))
  | _ => none

def step (st : St) (toks : List String) : St × String :=
  let n := fun (s : String) => s.toNat?.getD 0
  match toks with
  | ["w.meta", now, evm, next, bl] =>
    let blocked := (bl.splitOn ",").filterMap (·.toNat?)
    ({ w := { emptyWorld with now := n now, evmMod := n evm, nextAcc := n next, blocked := blocked }, s := none, dead := false }, "ok")
  | ["w.meta", now, evm, next] =>
    ({ w := { emptyWorld with now := n now, evmMod := n evm, nextAcc := n next }, s := none, dead := false }, "ok")
  | ["w.acc", a, kind, seq, num, endT, locked] =>
    let k : Kind := if kind = "m" then .module else if kind = "v" then .vesting (n endT) (n locked) else .base
    ({ st with w := { st.w with acc := st.w.acc.set (n a) (some { kind := k, seq := n seq, num := n num }) } }, "ok")
  | ["w.bal", a, d, x] => ({ st with w := st.w.setBal (n a) (n d) (n x) }, "ok")
  | ["w.ch", a, c] => ({ st with w := { st.w with codeHash := st.w.codeHash.set (n a) (n c) } }, "ok")
  | ["w.st", a, k, v] => ({ st with w := { st.w with storage := st.w.storage.set (pair (n a) (n k)) (some (n v)) } }, "ok")
  | ["w.al", a, b, x] => ({ st with w := { st.w with allow := st.w.allow.set (pair (n a) (n b)) (n x) } }, "ok")
  | ["w.sup", d, x] => ({ st with w := { st.w with supply := st.w.supply.set (n d) (n x) } }, "ok")
  | ["new"] =>
    let s := SState.new st.w
    ({ st with s := some s }, "ok " ++ dump s)
  | _ =>
    if st.dead then (st, "dead") else
    match st.s, parseOp toks with
    | some s, some op =>
      match s.step op with
      | .error _ => ({ st with dead := true }, "panic")
      | .ok (s', r) =>
        let ev := if s'.committed then s!" EV={s'.db.cur.events}" else ""
        ({ st with s := some s' }, r ++ " " ++ dump s' ++ ev)
    | _, _ => (st, "bad-op")

def init : St := { w := emptyWorld }

end Driver.StateDB
