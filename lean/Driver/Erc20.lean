import EvermintModel.Model.Erc20
import EvermintModel.Model.CallTree
import Driver.Common
import Driver.Block
/-! Driver for E-erc20.
`einit tokens=<tok:denom,..> blocked=<ids> addrs=<ids> denoms=<ids> bal=<a:d:n,..> sup=<d:n,..>`
`erc t=<tok> c=<caller> m=<method> a=<addr> b=<addr> n=<amount>`
`esend f=<from> t=<to> d=<denom> n=<amount>`   `etouch c=<caller> a=<addr>`
every answer ends with a digest of all balances, supplies and allowances over the declared universe. -/
namespace Driver.Erc20
open Evermint Evermint.Erc20 Driver.Block
open Evermint.CallTree (Kind Act)

structure DState where
  s : State
  addrs : List Nat
  denoms : List Nat

def init : DState :=
  { s := { denomOf := KMap.empty none, bal := KMap.empty 0, supply := KMap.empty 0, allow := KMap.empty 0, blocked := [], ghost := KMap.empty 0 },
    addrs := [], denoms := [] }

def nats (s : Option String) : List Nat :=
  match s with
  | none => [] | some "-" => []
  | some s => (s.splitOn ",").filterMap (·.toNat?)

def tuples (s : Option String) : List (List Nat) :=
  match s with
  | none => [] | some "-" => []
  | some s => (s.splitOn ",").map (fun c => (c.splitOn ":").filterMap (·.toNat?))

def digest (d : DState) : String :=
  let bals := d.addrs.flatMap (fun a => d.denoms.filterMap (fun dn =>
    let v := d.s.bal.get (a, dn); if v = 0 then none else some s!"{a}:{dn}:{v}"))
  let sups := d.denoms.map (fun dn => s!"{dn}:{d.s.supply.get dn}")
  let als := d.addrs.flatMap (fun o => d.addrs.filterMap (fun sp =>
    let v := d.s.allow.get (o, sp); if v = 0 then none else some s!"{o}:{sp}:{v}"))
  s!"bal={",".intercalate bals} sup={",".intercalate sups} al={",".intercalate als}"

def showLog : Option Log → String
  | none => "-"
  | some (.transfer t f to a) => s!"T:{t}:{f}:{to}:{a}"
  | some (.approval t o sp a) => s!"A:{t}:{o}:{sp}:{a}"

def methodOf (name : String) (a b n : Nat) : Option Method :=
  match name with
  | "balanceOf" => some (.balanceOf a) | "totalSupply" => some .totalSupply
  | "allowance" => some (.allowance a b) | "transfer" => some (.transfer a n)
  | "transferFrom" => some (.transferFrom a b n) | "approve" => some (.approve a n)
  | "burn" => some (.burn n) | "burnFrom" => some (.burnFrom a n) | _ => none

def kindOf : Nat → Kind
  | 0 => .call | 1 => .staticcall | 2 => .delegatecall | _ => .callcode

/-- tree syntax: `P<k>.<tok>.<method>.<a>.<b>.<n>` | `S<k>.<target>.<rev>(<acts>)`, comma separated -/
partial def parseActs (cs : List Char) : List Act × List Char :=
  match cs with
  | [] => ([], [])
  | ')' :: rest => ([], rest)
  | ',' :: rest => parseActs rest
  | 'P' :: rest =>
    let tok := rest.takeWhile (fun c => c != ',' && c != ')')
    let r1 := rest.dropWhile (fun c => c != ',' && c != ')')
    let fs := (String.ofList tok).splitOn "."
    let act : Option Act := match fs with
      | [k, t, m, a, b, n] => (methodOf m (a.toNat?.getD 0) (b.toNat?.getD 0) (n.toNat?.getD 0)).map (fun mm => Act.pc (kindOf (k.toNat?.getD 0)) (t.toNat?.getD 0) mm)
      | _ => none
    let (as, r) := parseActs r1
    (match act with | some a => a :: as | none => as, r)
  | 'V' :: rest =>
    -- a view probe of the root frame (`V<tok>.<method>.<a>.<b>`): not an action of the tree, see `probesOf`
    parseActs (rest.dropWhile (fun c => c != ',' && c != ')'))
  | 'S' :: rest =>
    let hd := rest.takeWhile (· != '(')
    let r1 := (rest.dropWhile (· != '(')).drop 1
    let fs := (String.ofList hd).splitOn "."
    let (body, r2) := parseActs r1
    let (as, r) := parseActs r2
    (match fs with
      | [k, t, rv] => Act.sub (kindOf (k.toNat?.getD 0)) (t.toNat?.getD 0) body (rv == "1") :: as
      | _ => as, r)
  | _ :: rest => parseActs rest

/-- the view probes at the end of a root frame, in order: (token, method) -/
def probesOf (acts : String) : List (Nat × Method) :=
  (acts.splitOn ",").filterMap fun t =>
    if t.startsWith "V" then
      match (String.ofList (t.toList.drop 1)).splitOn "." with
      | [tk, m, a, b] => (methodOf m (a.toNat?.getD 0) (b.toNat?.getD 0) 0).map (fun mm => (tk.toNat?.getD 0, mm))
      | _ => none
    else none

def showLogs (ls : List Log) : String :=
  if ls.isEmpty then "-" else "+".intercalate (ls.map (fun l => showLog (some l)))

def step (d : DState) (toks : List String) : DState × String :=
  match toks with
  | "einit" :: rest =>
    let toks2 := tuples (kv rest "tokens")
    let den := toks2.foldl (fun m t => match t with | [tk, dn] => m.set tk (some dn) | _ => m) (KMap.empty none)
    let bal := (tuples (kv rest "bal")).foldl (fun m t => match t with | [a, dn, n] => m.set (a, dn) n | _ => m) (KMap.empty 0)
    let sup := (tuples (kv rest "sup")).foldl (fun m t => match t with | [dn, n] => m.set dn n | _ => m) (KMap.empty 0)
    let d' : DState := { s := { denomOf := den, bal := bal, supply := sup, allow := KMap.empty 0, blocked := nats (kv rest "blocked"), ghost := KMap.empty 0 },
                         addrs := nats (kv rest "addrs"), denoms := nats (kv rest "denoms") }
    (d', "ok " ++ digest d')
  | "erc" :: rest =>
    let a := kvNat rest "a"; let b := kvNat rest "b"; let n := kvNat rest "n"
    let m? : Option Method := match kv rest "m" with
      | some "balanceOf" => some (.balanceOf a) | some "totalSupply" => some .totalSupply
      | some "allowance" => some (.allowance a b) | some "transfer" => some (.transfer a n)
      | some "transferFrom" => some (.transferFrom a b n) | some "approve" => some (.approve a n)
      | some "burn" => some (.burn n) | some "burnFrom" => some (.burnFrom a n) | _ => none
    match m? with
    | none => (d, "bad-op")
    | some m =>
      let (s', r) := Evermint.Erc20.step d.s { token := kvNat rest "t", caller := kvNat rest "c", m := m }
      let d' := { d with s := s' }
      match r with
      | .revert => (d', "revert " ++ digest d')
      | .ok ret lg => (d', s!"ok ret={ret} log={showLog lg} " ++ digest d')
  | "tree" :: rest =>
    let actsS := (kv rest "acts").getD ""
    let acts := (parseActs actsS.toList).1
    let self := kvNat rest "self"
    let r := Evermint.CallTree.execList { s := d.s, logs := [] } self acts
    let d' := { d with s := r.s }
    -- the probes: what the view methods answer on the final state of the transaction (`Erc20.step` of a view: `C10_views_exact`)
    let vs := (probesOf actsS).map fun (tk, m) =>
      match Evermint.Erc20.step r.s { token := tk, caller := self, m := m } with
      | (_, .ok ret _) => s!"V:{ret}"
      | (_, .revert) => "V:len0"
    let logS := if r.logs.isEmpty && vs.isEmpty then "-" else "+".intercalate (r.logs.map (fun l => showLog (some l)) ++ vs)
    (d', s!"ok logs={logS} " ++ digest d')
  | "etouch" :: _ =>
    -- a zero-value plain EVM message: no account of the universe changes (an account that holds coins of any
    -- denomination is not empty and survives being touched)
    (d, "ok " ++ digest d)
  | "esend" :: rest =>
    let (s', ok) := bankSend d.s (kvNat rest "f") (kvNat rest "t") (kvNat rest "d") (kvNat rest "n")
    let d' := { d with s := s' }
    (d', (if ok then "ok " else "fail ") ++ digest d')
  | _ => (d, "bad-op")

end Driver.Erc20
