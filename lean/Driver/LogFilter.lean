import EvermintModel.Model.LogFilter
import Driver.Common
import Driver.Block
/-! Driver for E-logfilter: `lf from=<int|-> to=<int|-> addrs=<a,b|-> topics=<1.2|*|3 …|-> logs=<addr:block:t1.t2;…|->`
→ indices of the selected logs (`-` if none) or `panic`. -/
namespace Driver.LogFilter
open Evermint.LogFilter Driver.Block

def natList (s : String) (sep : String) : List Nat := if s == "-" || s == "" then [] else (s.splitOn sep).filterMap (·.toNat?)

def step (_ : Unit) (toks : List String) : Unit × String :=
  match toks with
  | "lf" :: rest =>
    let optInt (k : String) : Option Int := match kv rest k with | none => none | some "-" => none | some v => v.toInt?
    let topics : List (List Nat) := match kv rest "topics" with
      | none => [] | some "-" => []
      | some s => (s.splitOn "|").map (fun alt => if alt == "*" then [] else natList alt ".")
    let logs : List Log := match kv rest "logs" with
      | none => [] | some "-" => []
      | some s => (s.splitOn ";").filterMap (fun e => match e.splitOn ":" with
        | [a, b, ts] => some { addr := a.toNat?.getD 0, block := b.toNat?.getD 0, topics := natList ts "." }
        | _ => none)
    let c : Crit := { fromB := optInt "from", toB := optInt "to", addrs := natList ((kv rest "addrs").getD "-") ",", topics := topics }
    let res := logs.zipIdx.foldr (fun (l, i) acc => match selects true c l, acc with
      | some true, some r => some (i :: r)
      | some false, some r => some r
      | _, _ => none) (some [])
    match res with
    | none => ((), "panic")
    | some [] => ((), "-")
    | some is => ((), ",".intercalate (is.map toString))
  | _ => ((), "bad-op")

end Driver.LogFilter
