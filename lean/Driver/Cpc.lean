import EvermintModel.Model.CreateAddr
import EvermintModel.Model.Cpc
import Driver.Common
import Driver.Block
import Driver.Erc20
/-! Driver for E-cpc.
`cgen v= wl=<ids|-> e=<0|1> st=<0|1> bond=<denom>` · `cdep s= d= mv= sp=` · `cstk s= mv=` ·
`cupd auth= pv= v= wl=` · `cdis a= d=`; every answer carries the whole registry and the callable set over `cand=<ids>`. -/
namespace Driver.Cpc
open Evermint Evermint.Cpc Driver.Block

def showOut : Out → String
  | .ok a => s!"ok:{a}" | .unauthorized => "unauthorized" | .invalid => "invalid" | .conflict => "conflict"
  | .zeroSupply => "zerosupply" | .inUse => "inuse" | .missing => "missing" | .downgrade => "downgrade"

def dump (s : State) (cand denoms : List Nat) : String :=
  let metas := cand.filterMap (fun a => (s.metas.get a).map (fun m => s!"{a}:{m.ty}:{if m.ty = tyErc20 then m.denom else 0}:{if m.disabled then 1 else 0}"))
  let idx := denoms.filterMap (fun d => (s.idx.get d).map (fun a => s!"{d}:{a}"))
  let call := cand.filter (callable s)
  s!"ver={s.version} wl={",".intercalate (s.whitelist.map toString)} seq={s.seq} metas={",".intercalate metas} idx={",".intercalate idx} callable={",".intercalate (call.map toString)}"

def step (s : State) (toks : List String) : State × String :=
  let cand := Driver.Erc20.nats (kv (toks.drop 1) "cand")
  let denoms := Driver.Erc20.nats (kv (toks.drop 1) "denoms")
  match toks with
  | ["caddr", sender, nonce] =>
    -- the address of a deployed precompile: CreateAddress(module account, nonce), RLP and Keccak-256 in Lean
    match Evermint.Keccak.ofHex sender, nonce.toNat? with
    | some a, some n => if a.length == 20 then (s, Evermint.Keccak.toHex (Evermint.CreateAddr.createAddress Evermint.Keccak.keccak256 a n)) else (s, "bad-op")
    | _, _ => (s, "bad-op")
  | "cgen" :: rest =>
    let s' := genesis (kvNat rest "v") (Driver.Erc20.nats (kv rest "wl")) (kvNat rest "e" == 1) (kvNat rest "st" == 1) (kvNat rest "bond")
    (s', "ok " ++ dump s' cand denoms)
  | "cdep" :: rest =>
    let (s', o) := Evermint.Cpc.step s (.deployErc20 (kvNat rest "s") (kvNat rest "d") (kvNat rest "mv" == 1) (kvNat rest "sp" == 1))
    (s', showOut o ++ " " ++ dump s' cand denoms)
  | "cstk" :: rest =>
    let (s', o) := Evermint.Cpc.step s (.deployStaking (kvNat rest "s") (kvNat rest "mv" == 1))
    (s', showOut o ++ " " ++ dump s' cand denoms)
  | "cupd" :: rest =>
    let (s', o) := Evermint.Cpc.step s (.updateParams (kvNat rest "auth" == 1) (kvNat rest "pv" == 1) (kvNat rest "v") (Driver.Erc20.nats (kv rest "wl")))
    (s', (match o with | .ok _ => "ok:0" | o => showOut o) ++ " " ++ dump s' cand denoms)
  | "cdis" :: rest =>
    let (s', o) := Evermint.Cpc.step s (.setDisabled (kvNat rest "a") (kvNat rest "d" == 1))
    (s', showOut o ++ " " ++ dump s' cand denoms)
  | _ => (s, "bad-op")

end Driver.Cpc
