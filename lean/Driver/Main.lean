import Driver.Common
import Driver.FeeMarket
import Driver.StateDB
import Driver.Block
import Driver.Ante
import Driver.VAuth
import Driver.Erc20
import Driver.Cpc
import Driver.Genesis
import Driver.BinSearch
import Driver.Indexer
import Driver.Staking
import Driver.Crypto
import Driver.LogFilter

def main (args : List String) : IO UInt32 := do
  let stdin ← IO.getStdin
  let stdout ← IO.getStdout
  match args with
  | ["feemarket"] => Driver.loop stdin stdout Driver.FeeMarket.step (); return 0
  | ["block"] => Driver.loop stdin stdout Driver.Block.step Driver.Block.emptyState; return 0
  | ["statedb"] => Driver.loop stdin stdout Driver.StateDB.step Driver.StateDB.init; return 0
  | ["ante"] => Driver.loop stdin stdout Driver.Ante.step (); return 0
  | ["vauth"] => Driver.loop stdin stdout Driver.VAuth.step Driver.VAuth.init; return 0
  | ["erc20"] => Driver.loop stdin stdout Driver.Erc20.step Driver.Erc20.init; return 0
  | ["calltree"] => Driver.loop stdin stdout Driver.Erc20.step Driver.Erc20.init; return 0
  | ["cpc"] => Driver.loop stdin stdout Driver.Cpc.step Evermint.Cpc.empty; return 0
  | ["genesis"] => Driver.loop stdin stdout Driver.Genesis.step (); return 0
  | ["binsearch"] => Driver.loop stdin stdout Driver.BinSearch.step (); return 0
  | ["indexer"] => Driver.loop stdin stdout Driver.Indexer.step Evermint.Indexer.Db.empty; return 0
  | ["staking"] => Driver.loop stdin stdout Driver.Staking.step (); return 0
  | ["crypto"] => Driver.loop stdin stdout Driver.Crypto.step (); return 0
  | ["logfilter"] => Driver.loop stdin stdout Driver.LogFilter.step (); return 0
  | _ => IO.eprintln "usage: driver <engine>"; return 2
