import EvermintModel.Model.StakingCpc
import Driver.Common
import Driver.Block
import Driver.Erc20
/-! Driver for E-staking:
`stk caller=<id> call=<delegate|undelegate|redelegate|withdraw|withdrawall|bymsg|wbymsg> val= src= dst= amt= act= md= old= valid= rec=<id|-> fv=<id|-> nat=<ok|err|skip> ev=<D:v:d:a,U:…,R:s:t:a,W:v:d:a,O>` -/
namespace Driver.Staking
open Evermint.StakingCpc Driver.Block

def parseEvents (s : Option String) : List Ev :=
  match s with
  | none => [] | some "-" => []
  | some s => (s.splitOn ",").filterMap (fun e =>
      match e.splitOn ":" with
      | ["D", v, d, a] => some (.delegate (v.toNat?.getD 0) (d.toNat?.getD 0) (a.toNat?.getD 0))
      | ["U", v, d, a] => some (.unbond (v.toNat?.getD 0) (d.toNat?.getD 0) (a.toNat?.getD 0))
      | ["R", x, y, a] => some (.redelegate (x.toNat?.getD 0) (y.toNat?.getD 0) (a.toNat?.getD 0))
      | ["W", v, d, a] => some (.withdraw (v.toNat?.getD 0) (d.toNat?.getD 0) (a.toNat?.getD 0))
      | ["O"] => some .other
      | _ => none)

def showNative : Option Native → String
  | none => "none"
  | some (.delegate d v a) => s!"delegate:{d}:{v}:{a}"
  | some (.undelegate d v a) => s!"undelegate:{d}:{v}:{a}"
  | some (.redelegate d s t a) => s!"redelegate:{d}:{s}:{t}:{a}"
  | some (.withdraw d v) => s!"withdraw:{d}:{v}"
  | some (.withdrawAll d) => s!"withdrawall:{d}"
  | some (.selfStake d a) => s!"selfstake:{d}:{a}"

def showLog : Log → String
  | .delegate d v a => s!"D:{d}:{v}:{a}"
  | .undelegate d v a => s!"U:{d}:{v}:{a}"
  | .withdrawReward d v a => s!"W:{d}:{v}:{a}"

def optNat (s : Option String) : Option Nat := match s with | none => none | some "-" => none | some x => x.toNat?

def step (_ : Unit) (toks : List String) : Unit × String :=
  match toks with
  | "stk" :: rest =>
    let caller := kvNat rest "caller"
    let act : Action := match kv rest "act" with | some "undelegate" => .undelegate | some "redelegate" => .redelegate | _ => .delegate
    let call? : Option Call := match kv rest "call" with
      | some "delegate" => some (.delegate (kvNat rest "val") (kvNat rest "amt"))
      | some "undelegate" => some (.undelegate (kvNat rest "val") (kvNat rest "amt"))
      | some "redelegate" => some (.redelegate (kvNat rest "src") (kvNat rest "dst") (kvNat rest "amt"))
      | some "withdraw" => some (.withdrawReward (kvNat rest "val"))
      | some "withdrawall" => some .withdrawRewards
      | some "transfer" => some (.transfer (kvNat rest "to") (kvNat rest "amt"))
      | some "bymsg" => some (.byMessage act (kvNat rest "md") (kvNat rest "val") (kvNat rest "old") (kvNat rest "amt") (kvNat rest "valid" == 1) (optNat (kv rest "rec")))
      | some "wbymsg" => some (.withdrawByMessage (kvNat rest "md") (optNat (kv rest "fv")) (kvNat rest "valid" == 1) (optNat (kv rest "rec")))
      | _ => none
    match call? with
    | none => ((), "bad-op")
    | some c =>
      let n := toNative caller c
      let natOK := kv rest "nat" == some "ok"
      match n with
      | none => ((), "native=none res=revert logs=- twin=eq")
      | some _ =>
        if !natOK then ((), s!"native={showNative n} res=revert logs=- twin=eq") else
        match logsOf caller (parseEvents (kv rest "ev")) 0 with
        | none => ((), s!"native={showNative n} res=revert logs=- twin=eq")
        | some ls => ((), s!"native={showNative n} res=ok logs={if ls.isEmpty then "-" else ",".intercalate (ls.map showLog)} twin=eq")
  | "stk2" :: rest =>
    -- two calls by one contract in one transaction: the second call sees the first call's events as "old"
    let caller := kvNat rest "caller"
    let ev1 := parseEvents (kv rest "ev1")
    let ev2 := parseEvents (kv rest "ev2")
    match logsOf caller ev1 0, logsOf caller (ev1 ++ ev2) ev1.length with
    | some l1, some l2 =>
      let ls := l1 ++ l2
      ((), s!"res=ok logs={if ls.isEmpty then "-" else ",".intercalate (ls.map showLog)} twin=eq")
    | _, _ => ((), "res=revert logs=- twin=eq")
  | _ => ((), "bad-op")

end Driver.Staking
