import EvermintModel.Model.Query
import Driver.Common
import Driver.Block
/-! Driver for E-binsearch: `bs lo=<n> hi=<n> t=<one char per gas value lo..hi: 0 ok, 1 failed, e consensus error>` -/
namespace Driver.BinSearch
open Evermint.Query Driver.Block

def step (_ : Unit) (toks : List String) : Unit × String :=
  match toks with
  | "bs" :: rest =>
    let lo := kvNat rest "lo"
    let hi := kvNat rest "hi"
    let tab := ((kv rest "t").getD "").toList.toArray
    let exec : Exec := fun g =>
      if g < lo then some true else
      match tab[g - lo]? with
      | some '0' => some false
      | some 'e' => none
      | _ => some true
    match binSearch exec lo hi with
    | some g => ((), s!"gas={g}")
    | none => ((), "err")
  | _ => ((), "bad-op")

end Driver.BinSearch
