import EvermintModel.Model.Indexer
import Driver.Common
import Driver.Block
import Driver.Erc20
/-! Driver for E-indexer: `idx h=<height> txs=<hash:dec:eth:ok:ev:rcpt:vm,…> q=<hashes> qi=<height:index,…>` -/
namespace Driver.Indexer
open Evermint Evermint.Indexer Driver.Block

def showEntry : Option Entry → String
  | none => "-"
  | some e => s!"{e.height}:{e.pos}:{e.ethIdx}:{if e.failed then 1 else 0}"

def step (db : Db) (toks : List String) : Db × String :=
  match toks with
  | "idx" :: rest =>
    let txs := (Driver.Erc20.tuples (kv rest "txs")).filterMap (fun t => match t with
      | [h, d, e, ok, ev, rc, vm] => some ({ hash := h, decodable := d == 1, isEth := e == 1, codeOK := ok == 1, hasEthEv := ev == 1, hasRcpt := rc == 1, vmErr := vm == 1 } : TxRec)
      | _ => none)
    let db' := indexBlock db (kvNat rest "h") txs
    let byH := (Driver.Erc20.nats (kv rest "q")).map (fun x => showEntry (getByHash db' x))
    let byI := (Driver.Erc20.tuples (kv rest "qi")).map (fun t => match t with
      | [h, i] => showEntry (getByBlockAndIndex db' h i) | _ => "?")
    (db', s!"hash={",".intercalate byH} index={",".intercalate byI}")
  | _ => (db, "bad-op")

end Driver.Indexer
