import EvermintModel.Model.Ante
import Driver.Common
import Driver.Block
/-! Driver for E-ante: one line per (transaction shape, mode).
`ante mode=<c|r|s|d> msgs=<tree> ext=<ids|-> nc=<n> sigs=<n> si=<n> payer=<0|1> granter=<0|1> memo=<0|1> to=<n>
      fee=<d:a,d:a|-> gl=<n> txb=<0|1> emb= eam= ecr= epr= efee= egas= efe= ecode= late=<code|-> proofs=<ids|->`
message tree: `E` | `X(<list>)` | `G<u>` | `V<k>.<to>` | `O<u>`, comma separated. -/
namespace Driver.Ante
open Evermint.Ante Driver.Block

/-- recursive-descent parser of the message tree (fuel = input length) -/
partial def parseList (cs : List Char) : List Msg × List Char :=
  match cs with
  | [] => ([], [])
  | ')' :: rest => ([], rest)
  | ',' :: rest => parseList rest
  | 'E' :: rest => let (ms, r) := parseList rest; (Msg.eth :: ms, r)
  | 'X' :: '(' :: rest =>
    let (inner, r1) := parseList rest
    let (ms, r2) := parseList r1
    (Msg.exec inner :: ms, r2)
  | c :: rest =>
    let digits := rest.takeWhile (fun x => x.isDigit)
    let r1 := rest.dropWhile (fun x => x.isDigit)
    let n := (String.ofList digits).toNat?.getD 0
    match c with
    | 'G' => let (ms, r) := parseList r1; (Msg.grant n :: ms, r)
    | 'O' => let (ms, r) := parseList r1; (Msg.other n :: ms, r)
    | 'V' =>
      match r1 with
      | '.' :: r2 =>
        let d2 := r2.takeWhile (fun x => x.isDigit)
        let r3 := r2.dropWhile (fun x => x.isDigit)
        let (ms, r) := parseList r3
        (Msg.vesting n ((String.ofList d2).toNat?.getD 0) :: ms, r)
      | _ => let (ms, r) := parseList r1; (Msg.vesting n 0 :: ms, r)
    | _ => parseList rest

def natList (s : Option String) : List Nat :=
  match s with
  | none => [] | some "-" => []
  | some s => (s.splitOn ",").filterMap (·.toNat?)

def coinList (s : Option String) : List (Nat × Nat) :=
  match s with
  | none => [] | some "-" => []
  | some s => (s.splitOn ",").filterMap (fun c => match c.splitOn ":" with
      | [d, a] => match d.toNat?, a.toNat? with
        | some d, some a => some (d, a) | _, _ => none
      | _ => none)

def b (toks : List String) (k : String) : Bool := kvNat toks k == 1

def step (_ : Unit) (toks : List String) : Unit × String :=
  match toks with
  | "ante" :: rest =>
    let mode : Mode := match kv rest "mode" with
      | some "c" => .check | some "r" => .recheck | some "s" => .simulate | _ => .deliver
    let msgs := (parseList ((kv rest "msgs").getD "").toList).1
    let t : Tx := {
      msgs := msgs
      eth := { msgBasicOK := b rest "emb", asMessageOK := b rest "eam", create := b rest "ecr", prot := b rest "epr",
               fee := kvNat rest "efee", gas := kvNat rest "egas", fromEmpty := b rest "efe", senderHasCode := b rest "ecode" }
      extOpts := natList (kv rest "ext")
      nonCrit := kvNat rest "nc"
      sigs := kvNat rest "sigs"
      signerInfos := kvNat rest "si"
      payer := b rest "payer"
      granter := b rest "granter"
      memo := b rest "memo"
      timeout := kvNat rest "to"
      feeCoins := coinList (kv rest "fee")
      gasLimit := kvNat rest "gl"
      txBasicOK := b rest "txb" }
    let late : Option String := match kv rest "late" with
      | none => none | some "-" => none | some c => some c
    let proofs := natList (kv rest "proofs")
    let p : Params := { enableCreate := kvNat rest "pcr" != 0 || (kv rest "pcr").isNone, enableCall := kvNat rest "pca" != 0 || (kv rest "pca").isNone }
    match run p t mode late (fun a => proofs.contains a) with
    | none => ((), "ok")
    | some e => ((), if e.startsWith "late:" then e else "rej:" ++ e)
  | _ => ((), "bad-op")

end Driver.Ante
