import EvermintModel.Model.Block
import EvermintModel.Model.Bloom
import EvermintModel.Model.CreateAddr
import Driver.Common
namespace Driver.Block
open Evermint Evermint.Block

def kv (toks : List String) (k : String) : Option String :=
  toks.findSome? (fun t => if t.startsWith (k ++ "=") then some ((t.drop (k.length + 1)).toString) else none)

def kvNat (toks : List String) (k : String) : Nat := ((kv toks k).bind (·.toNat?)).getD 0
def kvInt (toks : List String) (k : String) : Int := ((kv toks k).bind (·.toInt?)).getD 0

def showClass : Class → String
  | .dropped => "dropped" | .preBasic => "ante:evm/16" | .anteRejected c => "ante:" ++ c | .cerr => "cerr"
  | .panic => "panic" | .blockOog => "blockoog" | .vmerr => "vmerr" | .ok => "ok"

def dash {α : Type} [ToString α] : Option α → String
  | some a => toString a | none => "-"

def showOut (o : TxOut) : String :=
  s!"cls={showClass o.cls} gw={o.gasWanted} gu={o.gasUsed} aidx={dash o.anteIdx} ridx={dash o.rcptIdx} lidx={dash o.logIdx} rgu={dash o.rcptGas} cum={dash o.cumGas} st={dash o.status} ep={dash o.effPrice} dS={o.dSender} dC={o.dCollector} dSup={o.dSupply} ctr={match o.contract with | some true => "1" | some false => "0" | none => "-"}"

def showCos (o : TxOut) : String :=
  s!"cls={showClass o.cls} gw={o.gasWanted} dS={o.dSender} dC={o.dCollector} dSup={o.dSupply}"

def emptyState : BState := { bal := FMap.empty 0, seq := FMap.empty 0, baseFee := 0, maxGas := 0, minRaw := 0 }

/-- `i:bal:seq` triples -/
def parseWallets (toks : List String) (s : BState) : BState :=
  toks.foldl (fun s t =>
    match t.splitOn ":" with
    | [i, b, q] => match i.toNat?, b.toNat?, q.toNat? with
      | some i, some b, some q => { s with bal := s.bal.set i b, seq := s.seq.set i q }
      | _, _, _ => s
    | _ => s) s

def nWallets : Nat := 7     -- five wallets, the vesting sender, the poor wallet (`blockFixture.senders`)

def showWallets (s : BState) : String :=
  " ".intercalate ((List.range nWallets).map (fun i => s!"{i}:{s.bal.get i}:{s.seq.get i}"))

def step (s : BState) (toks : List String) : BState × String :=
  match toks with
  | "begin" :: base :: mg :: mn :: rest =>
    let s0 : BState := { emptyState with baseFee := base.toNat?.getD 0, maxGas := mg.toInt?.getD 0, minRaw := mn.toNat?.getD 0 }
    (parseWallets rest s0, "ok")
  | "eth" :: rest =>
    let sig : SigClass := match kv rest "sig" with
      | some "chain" => .wrongChain | some "unprot" => .unprotected | some "from" => .fromMismatch | _ => .ok
    let toW : Option Nat := match kv rest "to" with
      | some t => t.toNat? | none => none
    let t : EthTx := {
      sender := kvNat rest "s"
      ty := kvNat rest "ty"
      gasLimit := kvNat rest "gl"
      gasPrice := kvNat rest "gp"
      feeCap := kvNat rest "cap"
      tip := kvNat rest "tip"
      value := kvNat rest "val"
      nonce := kvNat rest "nonce"
      create := (kvNat rest "create" == 1)
      intrinsic := kvNat rest "ig"
      sig := sig
      toWallet := toW
      sdBurn := kvNat rest "sdb" }
    let x : Exec := { vmErr := (kv rest "x" == some "vmerr"), gasBefore := kvNat rest "gb", refundCounter := kvNat rest "rc", nLogs := kvNat rest "nl", panicked := (kvNat rest "pan" == 1), meterGas := kvNat rest "mg" }
    let (s', o) := stepEth s t x
    (s', showOut o)
  | "cos" :: rest =>
    let t : CosTx := {
      sender := kvNat rest "s"
      gasLimit := kvNat rest "gl"
      fee := kvNat rest "fee"
      value := kvNat rest "val"
      to := kvNat rest "to"
      nonce := kvNat rest "nonce" }
    let (s', o) := stepCos s t (kvNat rest "ok" == 1) (kvNat rest "gu")
    (s', showCos o)
  | ["caddr", sender, nonce] =>
    -- the CREATE address of (sender, nonce): keccak256(rlp([sender, nonce]))[12:], RLP and Keccak-256 in Lean
    match Evermint.Keccak.ofHex sender, nonce.toNat? with
    | some a, some n => if a.length == 20 then (s, Evermint.Keccak.toHex (Evermint.CreateAddr.createAddress Evermint.Keccak.keccak256 a n)) else (s, "bad-op")
    | _, _ => (s, "bad-op")
  | ["bloom", enc] =>
    -- receipts `;` logs `|` items `,` (hex); every receipt's bloom from its own logs and the block bloom, with Keccak-256
    let parseLog (l : String) : Option Evermint.Bloom.Log :=
      match (l.splitOn ",").mapM Evermint.Keccak.ofHex with
      | some (a :: ts) => some ⟨a, ts⟩
      | _ => none
    let parseRcpt (r : String) : Option (List Evermint.Bloom.Log) :=
      if r == "-" then some [] else (r.splitOn "|").mapM parseLog
    match (enc.splitOn ";").mapM parseRcpt with
    | none => (s, "bad-op")
    | some rs =>
      let hexOf (n : Nat) : String :=
        if n == 0 then "-" else Evermint.Keccak.toHex ((List.range 256).map (fun i => UInt8.ofNat ((n >>> (8 * (255 - i))) % 256)))
      let H := Evermint.Keccak.keccak256
      let rb := ",".intercalate (rs.map (fun r => hexOf (Evermint.Bloom.logsBloom H r)))
      (s, s!"rb={rb} bb={hexOf (Evermint.Bloom.blockBloom H rs)}")
  | ["end"] =>
    let bf := match endBlock s with
      | .ok v => toString v | .panicDivZero => "panic-divzero" | .panicOverflow => "panic-overflow"
    (s, s!"basefee={bf} {showWallets s}")
  | _ => (s, "bad-op")

end Driver.Block
