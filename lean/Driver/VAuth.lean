import EvermintModel.Model.VAuth
import Driver.Common
import Driver.Block
/-! Driver for E-vauth: `vsubmit s=<id> a=<id> wf=<0|1> rec=<id|-> lower=<0|1> bal=<submitter balance after the tx fee>` -/
namespace Driver.VAuth
open Evermint Evermint.VAuth Driver.Block

def init : State := { proofs := FMap.empty none, bal := FMap.empty 0, supply := 0 }

def showOutcome : Outcome → String
  | .ok => "ok" | .basic => "basic" | .conflict => "conflict" | .funds => "funds" | .panic => "panic"

def step (s : State) (toks : List String) : State × String :=
  match toks with
  | "vsubmit" :: rest =>
    let m : Msg := { submitter := kvNat rest "s", account := kvNat rest "a",
                     sig := { wellFormed := kvNat rest "wf" == 1,
                              recovers := (kv rest "rec").bind (·.toNat?),
                              lower := kvNat rest "lower" == 1 } }
    let bal := kvNat rest "bal"
    let s0 : State := { s with bal := s.bal.set m.submitter bal, supply := 2 * cost }
    let (s1, o) := submit s0 m
    let dS : Int := (s1.bal.get m.submitter : Int) - bal
    let dSup : Int := (s1.supply : Int) - s0.supply
    (s1, s!"cls={showOutcome o} proof={if hasProof s1 m.account then 1 else 0} dS={dS} dSup={dSup}")
  | _ => (s, "bad-op")

end Driver.VAuth
