import EvermintModel.Model.Genesis
import Driver.Common
import Driver.Block
import Driver.Erc20
/-! Driver for E-genesis: `gen contracts=<addr:code:k=v;k=v|…> evmp= feep= bf= ver= wl= cpc=<addr:ty:denom:dis,…> al=<o:s:n,…> proofs=<ids>`
answers with the observable state after `import (export s)` and whether a second export equals the first. -/
namespace Driver.Genesis
open Evermint Evermint.Genesis Driver.Block

def parseContracts (s : Option String) : List Contract :=
  match s with
  | none => [] | some "-" => []
  | some s => (s.splitOn "|").filterMap (fun c =>
      match c.splitOn ":" with
      | [a, code, st] =>
        let kvs := if st == "" || st == "-" then [] else (st.splitOn ";").filterMap (fun e => match e.splitOn "=" with
          | [k, v] => match k.toNat?, v.toNat? with
            | some k, some v => some (k, v) | _, _ => none
          | _ => none)
        some { addr := a.toNat?.getD 0, code := code.toNat?.getD 0, storage := kvs }
      | _ => none)

def showContracts (cs : List Contract) : String :=
  if cs.isEmpty then "-" else
  "|".intercalate (cs.map (fun c => s!"{c.addr}:{c.code}:{if c.storage.isEmpty then "-" else ";".intercalate (c.storage.map (fun p => s!"{p.1}={p.2}"))}"))

def showState (s : State) : String :=
  let cpc := if s.cpc.isEmpty then "-" else ",".intercalate (s.cpc.map (fun e => s!"{e.addr}:{e.ty}:{e.denom}:{if e.disabled then 1 else 0}"))
  let al := if s.allowances.isEmpty then "-" else ",".intercalate (s.allowances.map (fun a => s!"{a.1}:{a.2.1}:{a.2.2}"))
  let pr := if s.proofs.isEmpty then "-" else ",".intercalate (s.proofs.map toString)
  s!"contracts={showContracts s.contracts} evmp={s.evmParams} feep={s.feeParams} bf={s.baseFee} ver={s.cpcVersion} wl={",".intercalate (s.cpcWhitelist.map toString)} cpc={cpc} al={al} proofs={pr}"

def step (_ : Unit) (toks : List String) : Unit × String :=
  match toks with
  | "gen" :: rest =>
    let cpc := (Driver.Erc20.tuples (kv rest "cpc")).filterMap (fun t => match t with
      | [a, ty, d, dis] => some ({ addr := a, ty := ty, denom := d, disabled := dis == 1 } : CpcEntry) | _ => none)
    let al := (Driver.Erc20.tuples (kv rest "al")).filterMap (fun t => match t with | [o, s, n] => some (o, s, n) | _ => none)
    let s : State := { contracts := parseContracts (kv rest "contracts"), evmParams := kvNat rest "evmp", feeParams := kvNat rest "feep",
                       baseFee := kvNat rest "bf", cpcVersion := kvNat rest "ver", cpcWhitelist := Driver.Erc20.nats (kv rest "wl"),
                       cpc := cpc, allowances := al, proofs := Driver.Erc20.nats (kv rest "proofs") }
    let s' := import_ (export_ s)
    let idem := decide (export_ s' = export_ s)
    ((), showState s' ++ s!" second-export-equal={if idem then 1 else 0}")
  | _ => ((), "bad-op")

end Driver.Genesis
