import EvermintModel.Model.Eip712
import EvermintModel.Properties.C19Flat
import Driver.Common
/-! Driver for E-crypto.
`keccak <hex>` → digest; `eip712 <chainId> <doc>` → `ok <digest>` | `error`, where `<doc>` is a prefix
serialisation of the JSON value written by the harness: `N`, `T`, `F`, `I<int>`, `X` (non-integral number),
`S<hex utf8>`, `A<n> v…`, `O<n> S<hex key> v …`. -/
namespace Driver.Crypto
open Evermint Evermint.Eip712

def hexStr (h : String) : Option String := (Keccak.ofHex h).bind (fun bs => String.fromUTF8? (ByteArray.mk bs.toArray))

partial def parseJ : List String → Option (J × List String)
  | [] => none
  | tok :: rest =>
    match tok.toList with
    | ['N'] => some (.null, rest)
    | ['T'] => some (.bool true, rest)
    | ['F'] => some (.bool false, rest)
    | ['X'] => some (.float, rest)
    | 'I' :: ds => (String.ofList ds).toInt?.map (fun n => (.num n, rest))
    | 'S' :: hs => (hexStr (String.ofList hs)).map (fun s => (.str s, rest))
    | 'A' :: ds =>
      match (String.ofList ds).toNat? with
      | none => none
      | some n =>
        let rec items (k : Nat) (toks : List String) (acc : List J) : Option (List J × List String) :=
          match k with
          | 0 => some (acc.reverse, toks)
          | k + 1 => match parseJ toks with | some (v, r) => items k r (v :: acc) | none => none
        (items n rest []).map (fun (xs, r) => (.arr xs, r))
    | 'O' :: ds =>
      match (String.ofList ds).toNat? with
      | none => none
      | some n =>
        let rec fields (k : Nat) (toks : List String) (acc : List (String × J)) : Option (List (String × J) × List String) :=
          match k with
          | 0 => some (acc.reverse, toks)
          | k + 1 =>
            match toks with
            | kt :: r1 =>
              match kt.toList with
              | 'S' :: hs =>
                match hexStr (String.ofList hs), parseJ r1 with
                | some key, some (v, r2) => fields k r2 ((key, v) :: acc)
                | _, _ => none
              | _ => none
            | [] => none
        (fields n rest []).map (fun (kvs, r) => (.obj kvs, r))
    | _ => none

partial def keysDistinct : J → Bool
  | .arr xs => xs.all keysDistinct
  | .obj kvs => (kvs.map (·.1)).eraseDups.length == kvs.length && kvs.all (fun kv => keysDistinct kv.2)
  | _ => true

def step (_ : Unit) (toks : List String) : Unit × String :=
  match toks with
  | ["keccak", h] => match Keccak.ofHex (if h == "-" then "" else h) with
    | some bs => ((), Keccak.toHex (Keccak.keccak256 bs))
    | none => ((), "bad-op")
  | "docok" :: cid :: doc =>      -- the hypotheses of `C19_document_injective`, evaluated on this document
    match cid.toNat?, parseJ doc with
    | some c, some (j, []) => ((), if docOKFull c j then "1" else "0")
    | _, _ => ((), "bad-op")
  | "eip712" :: cid :: doc =>
    match cid.toNat?, parseJ doc with
    | some c, some (j, []) =>
      if !keysDistinct j then ((), "bad-op") else
      match digest c j with
      | some d => ((), "ok " ++ Keccak.toHex d)
      | none => ((), "error")
    | _, _ => ((), "bad-op")
  | _ => ((), "bad-op")

end Driver.Crypto
