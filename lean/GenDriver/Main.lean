import EvermintModel.Facts.GenCode
import EvermintModel.Model.FeeMarket
import Driver.Common
/-!
`gendriver`: runs the definitions **translated from the Go source** (`Facts/GenCode.lean`) on the op lines of an engine, so
that the translator and the Go semantics of `Base/GoSem.lean` are themselves checked against the implementation on every run
(the tie theorems relate the same definitions to the models).  A separate executable: a function that could not be
translated breaks this build only.
-/
open Evermint Evermint.GenCode

namespace GenDriver

def showOpt : Option Int → String
  | some v => s!"ok {v}"
  | none => "panic"

/-- `calc <b> <maxGas|nil> <consumed> <minRaw>`: `Keeper.CalculateBaseFee` as translated; the context answers as the SDK's
block gas meter does (`GasConsumedToLimit` = `FeeMarket.gasUsedOf`) and London is active at every height -/
def feemarket (_ : Unit) (toks : List String) : Unit × String :=
  match toks with
  | ["calc", b, mg, cons, mn] =>
    match b.toNat?, (if mg = "nil" then some none else mg.toInt?.map some), cons.toNat?, mn.toNat? with
    | some b, some (mg : Option Int), some cons, some mn =>
      let k : feemarket_keeper_Keeper := { (default : feemarket_keeper_Keeper) with GetParams_BaseFee := b, GetParams_MinGasPrice := mn, evmKeeper_GetChainConfig_IsLondon := fun _ => true }
      let ctx : types_Context := { (default : types_Context) with BlockGasMeter_GasConsumedToLimit := FeeMarket.gasUsedOf mg cons, BlockHeight := 1, ConsensusParams_Block_MaxGas := mg.getD 0, ConsensusParams_Block_isNil := mg.isNone }
      ((), showOpt (keeper_Keeper_CalculateBaseFee k ctx))
    | _, _, _, _ => ((), "bad-op")
  | _ => ((), "bad-op")

def kv (toks : List String) (k : String) : Option String :=
  toks.findSome? fun t => if t.startsWith (k ++ "=") then some (t.drop (k.length + 1)).toString else none

/-- `bs lo=<n> hi=<n> t=<table>`: `evmtypes.BinSearch` as translated -/
def binsearch (_ : Unit) (toks : List String) : Unit × String :=
  match toks with
  | "bs" :: rest =>
    let lo := ((kv rest "lo").bind String.toNat?).getD 0
    let hi := ((kv rest "hi").bind String.toNat?).getD 0
    let tab := ((kv rest "t").getD "").toList.toArray
    let exec : Nat → Bool × Unit × Option String := fun g =>
      if g < lo then (true, (), none) else
      match tab[g - lo]? with
      | some '0' => (false, (), none)
      | some 'e' => (false, (), some "consensus")
      | _ => (true, (), none)
    match types_BinSearch lo hi exec with
    | some (g, none) => ((), s!"gas={g}")
    | some (_, some _) => ((), "err")
    | none => ((), "panic")
  | _ => ((), "bad-op")

def kvInt (toks : List String) (k : String) : Int := ((kv toks k).bind String.toInt?).getD 0
def kvNat (toks : List String) (k : String) : Nat := ((kv toks k).bind String.toNat?).getD 0

def denomName (id : String) : String := "d" ++ id

/-- `fc lane=… mode=… h=… base=… min=… node=… fees=… gas=… ext=… [ty= gp= cap= tip= egas=]`: the two fee checkers as translated -/
def feecheck (_ : Unit) (toks : List String) : Unit × String :=
  match toks with
  | "fc" :: rest =>
    let lane := (kv rest "lane").getD "c"
    let mode := (kv rest "mode").getD "d"
    let fees : List Go.Coin :=
      match kv rest "fees" with
      | some "-" | none => []
      | some fs => (fs.splitOn ",").filterMap fun e =>
          match e.splitOn ":" with
          | [d, a] => a.toInt?.map fun a => (⟨denomName d, a⟩ : Go.Coin)
          | _ => none
    let exts : List types_Any :=
      match kv rest "ext" with
      | some "-" | none => []
      | some es => (es.splitOn ",").map fun e =>
          match e.splitOn ":" with
          | ["d", t] => { (default : types_Any) with GetCachedValue_is_evertypes_ExtensionOptionDynamicFeeTx := true, GetCachedValue_as_evertypes_ExtensionOptionDynamicFeeTx_MaxPriorityPrice := t.toInt?.getD 0 }
          | _ => { (default : types_Any) with GetCachedValue_is_evertypes_ExtensionOptionDynamicFeeTx := false }
    let node := kvInt rest "node"
    let ctx : types_Context := { (default : types_Context) with BlockHeight := kvInt rest "h", IsCheckTx := mode != "d", IsReCheckTx := mode == "r", MinGasPrices_AmountOf := fun d => if d = denomName "0" then node else 0 }
    let ek : duallane_EvmKeeperForFeeChecker := { (default : duallane_EvmKeeperForFeeChecker) with GetParams_EvmDenom := denomName "0" }
    let fk : duallane_FeeMarketKeeperForFeeChecker := { (default : duallane_FeeMarketKeeperForFeeChecker) with GetParams_BaseFee := kvInt rest "base", GetParams_MinGasPrice := kvInt rest "min" }
    let msg : iface_ProtoMessage_Reset_String :=
      if lane = "e" then
        { (default : iface_ProtoMessage_Reset_String) with is_evmtypes_MsgEthereumTx := true, as_evmtypes_MsgEthereumTx_AsTransaction_Gas := kvNat rest "egas", as_evmtypes_MsgEthereumTx_AsTransaction_GasFeeCap := kvInt rest "cap", as_evmtypes_MsgEthereumTx_AsTransaction_GasPrice := kvInt rest "gp", as_evmtypes_MsgEthereumTx_AsTransaction_GasTipCap := kvInt rest "tip", as_evmtypes_MsgEthereumTx_AsTransaction_Type' := kvNat rest "ty" }
      else { (default : iface_ProtoMessage_Reset_String) with is_evmtypes_MsgEthereumTx := false }
    let tx : types_Tx := { (default : types_Tx) with GetMsgs := [msg], is_sdk_FeeTx := true, as_sdk_FeeTx_GetFee := fees, as_sdk_FeeTx_GetGas := kvNat rest "gas", as_sdk_FeeTx_is_sdkauthante_HasExtensionOptionsTx := true, as_sdk_FeeTx_as_sdkauthante_HasExtensionOptionsTx_GetExtensionOptions := exts }
    let r := if lane = "e" then duallane_EthereumTxFeeChecker ek fk ctx tx else duallane_CosmosTxFeeChecker ek fk ctx tx
    match r with
    | none => ((), "panic")
    | some (_, _, some e) => ((), "err " ++ e)
    | some (coins, prio, none) =>
      let f := match coins with | c :: _ => toString c.Amount | [] => "-"
      ((), s!"ok fee={f} prio={prio}")
  | _ => ((), "bad-op")

def hexOf (bz : List Nat) : String :=
  String.ofList (bz.foldr (fun b acc => (Nat.toDigits 16 (b / 16 % 16)) ++ (Nat.toDigits 16 (b % 16)) ++ acc) [])

/-- `tik h=<int64> i=<int32>`: `indexer.TxIndexKey` as translated; `gm c= op= a=`: the Ethereum transaction gas meter as translated -/
def genfuncs (_ : Unit) (toks : List String) : Unit × String :=
  match toks with
  | "tik" :: rest =>
    match indexer_TxIndexKey (kvInt rest "h") (kvInt rest "i") with
    | some k => ((), hexOf k)
    | none => ((), "panic")
  | "gm" :: rest =>
    let g : types_infiniteGasMeterWithLimit := { consumed := kvNat rest "c" }
    let r := if (kv rest "op") == some "consume" then types_infiniteGasMeterWithLimit_ConsumeGas g (kvNat rest "a") "op"
             else types_infiniteGasMeterWithLimit_RefundGas g (kvNat rest "a") "op"
    match r with
    | some g' => ((), toString g'.consumed)
    | none => ((), "panic")
  | _ => ((), "bad-op")

end GenDriver

def main (args : List String) : IO UInt32 := do
  let stdin ← IO.getStdin
  let stdout ← IO.getStdout
  match args with
  | ["feemarket"] => Driver.loop stdin stdout GenDriver.feemarket (); return 0
  | ["binsearch"] => Driver.loop stdin stdout GenDriver.binsearch (); return 0
  | ["feecheck"] => Driver.loop stdin stdout GenDriver.feecheck (); return 0
  | ["genfuncs"] => Driver.loop stdin stdout GenDriver.genfuncs (); return 0
  | _ => IO.eprintln "usage: gendriver <engine>"; return 2
