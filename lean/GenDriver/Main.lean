import EvermintModel.Facts.GenCode
import EvermintModel.Model.FeeMarket
import Driver.Common
/-!
`gendriver`: runs the definitions **translated from the Go source** (`Facts/GenCode.lean`) on the op lines of an engine, so
that the translator and the Go semantics of `Base/GoSem.lean` are themselves checked against the implementation on every run
(the tie theorems relate the same definitions to the models).  A separate executable: a function that could not be
translated breaks this build only.
-/
open Evermint Evermint.GenCode

namespace GenDriver

def showOpt : Option Int → String
  | some v => s!"ok {v}"
  | none => "panic"

/-- `calc <b> <maxGas|nil> <consumed> <minRaw>`: `Keeper.CalculateBaseFee` as translated; the context answers as the SDK's
block gas meter does (`GasConsumedToLimit` = `FeeMarket.gasUsedOf`) and London is active at every height -/
def feemarket (_ : Unit) (toks : List String) : Unit × String :=
  match toks with
  | ["calc", b, mg, cons, mn] =>
    match b.toNat?, (if mg = "nil" then some none else mg.toInt?.map some), cons.toNat?, mn.toNat? with
    | some b, some (mg : Option Int), some cons, some mn =>
      let k : keeper_Keeper := { (default : keeper_Keeper) with GetParams_BaseFee := b, GetParams_MinGasPrice := mn, evmKeeper_GetChainConfig_IsLondon := fun _ => true }
      let ctx : types_Context := { (default : types_Context) with BlockGasMeter_GasConsumedToLimit := FeeMarket.gasUsedOf mg cons, BlockHeight := 1, ConsensusParams_Block_MaxGas := mg.getD 0, ConsensusParams_Block_isNil := mg.isNone }
      ((), showOpt (keeper_Keeper_CalculateBaseFee k ctx))
    | _, _, _, _ => ((), "bad-op")
  | _ => ((), "bad-op")

def kv (toks : List String) (k : String) : Option String :=
  toks.findSome? fun t => if t.startsWith (k ++ "=") then some (t.drop (k.length + 1)).toString else none

/-- `bs lo=<n> hi=<n> t=<table>`: `evmtypes.BinSearch` as translated -/
def binsearch (_ : Unit) (toks : List String) : Unit × String :=
  match toks with
  | "bs" :: rest =>
    let lo := ((kv rest "lo").bind String.toNat?).getD 0
    let hi := ((kv rest "hi").bind String.toNat?).getD 0
    let tab := ((kv rest "t").getD "").toList.toArray
    let exec : Nat → Bool × Unit × Option String := fun g =>
      if g < lo then (true, (), none) else
      match tab[g - lo]? with
      | some '0' => (false, (), none)
      | some 'e' => (false, (), some "consensus")
      | _ => (true, (), none)
    match types_BinSearch lo hi exec with
    | some (g, none) => ((), s!"gas={g}")
    | some (_, some _) => ((), "err")
    | none => ((), "panic")
  | _ => ((), "bad-op")

end GenDriver

def main (args : List String) : IO UInt32 := do
  let stdin ← IO.getStdin
  let stdout ← IO.getStdout
  match args with
  | ["feemarket"] => Driver.loop stdin stdout GenDriver.feemarket (); return 0
  | ["binsearch"] => Driver.loop stdin stdout GenDriver.binsearch (); return 0
  | _ => IO.eprintln "usage: gendriver <engine>"; return 2
